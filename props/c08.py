"""C08 - set operations obey multiset algebra; hash variants agree."""
import petl

from engine.ref import multiset_eq, ref_lt, row_eq
from engine.shim import check
from engine.stubs import pickle_stub, private_tempdir

from .common import cell, nrows

PROPERTY = 'C08'


def _table(sym, name, n, ncols, dom):
    doms = dom.split('+') if '+' in dom else [dom] * ncols
    return [[cell(sym, '%s%d.%d' % (name, i, c), doms[c]) for c in range(ncols)] for i in range(n)]


def ref_complement(A, B, strict):
    out = []
    used = [False] * len(B)
    for x in A:
        if strict:
            if not any(row_eq(x, y) for y in B):
                out.append(tuple(x))
            continue
        for j, y in enumerate(B):
            if not used[j] and row_eq(x, y):
                used[j] = True
                break
        else:
            out.append(tuple(x))
    return out


def ref_intersection(A, B):
    out = []
    used = [False] * len(B)
    for x in A:
        for j, y in enumerate(B):
            if not used[j] and row_eq(x, y):
                used[j] = True
                out.append(tuple(x))
                break
    return out


def _seq_eq(a, b):
    return len(a) == len(b) and all(row_eq(x, y) for x, y in zip(a, b))


def _sorted_rows(rows):
    for i in range(len(rows) - 1):
        if ref_lt(tuple(rows[i + 1]), tuple(rows[i])):
            return False
    return True


def setop(sym, op, NA, NB, ncols, dom, bs=None, presorted=False):
    na, nb = nrows(sym, 'na', NA), nrows(sym, 'nb', NB)
    A = _table(sym, 'a', na, ncols, dom)
    B = _table(sym, 'b', nb, ncols, dom)
    hdr = ['x', 'y', 'z'][:ncols]
    if 'Md2' in dom:
        hdr = ['a', 'b', 'c'][:ncols]      # a data row may equal the header row
    if presorted:
        from engine.shim import assume
        assume(_sorted_rows(A) and _sorted_rows(B))
    ta = [hdr] + A
    tb = [list(hdr)] + B
    strict = sym.flag('strict') if op in ('complement', 'hashcomplement', 'diff', 'recordcomplement', 'recorddiff') else False
    if op.startswith('record'):
        # b's fields in another order; rows permuted accordingly
        perm = list(reversed(range(ncols))) if ncols < 3 else [1, 2, 0]      # (y, z, x): not its own inverse
        tb = [[hdr[p] for p in perm]] + [[r[p] for p in perm] for r in B]
    with pickle_stub(), private_tempdir() as td:
        kw = dict(buffersize=bs, tempdir=td)
        if presorted:
            kw['presorted'] = True
        if op == 'complement':
            out = [tuple(r) for r in petl.complement(ta, tb, strict=strict, **kw)]
            check(out[0] == tuple(hdr), 'header', out[0])
            check(multiset_eq(out[1:], ref_complement(A, B, strict)), 'complement != a - b', A, B, strict, out[1:])
            check(_sorted_rows(out[1:]), 'complement output not in ascending row order', out[1:])
        elif op == 'recordcomplement':
            out = [tuple(r) for r in petl.recordcomplement(ta, tb, strict=strict, **kw)]
            check(out[0] == tuple(hdr), 'header', out[0])
            check(multiset_eq(out[1:], ref_complement(A, B, strict)), 'recordcomplement != a - b', A, B, strict, out[1:])
        elif op == 'intersection':
            out = [tuple(r) for r in petl.intersection(ta, tb, **kw)]
            check(out[0] == tuple(hdr), 'header', out[0])
            check(multiset_eq(out[1:], ref_intersection(A, B)), 'intersection != a & b', A, B, out[1:])
            check(_sorted_rows(out[1:]), 'intersection output not in ascending row order', out[1:])
        elif op in ('diff', 'recorddiff'):
            added, subtracted = getattr(petl, op)(ta, tb, strict=strict, **kw)
            added = [tuple(r) for r in added]
            subtracted = [tuple(r) for r in subtracted]
            # `added` has b's header (recorddiff: b's field order)
            bh = tuple(tb[0])
            check(added[0] == bh and subtracted[0] == tuple(hdr), 'headers', added[0], subtracted[0])
            Bp = tb[1:]
            Ap = [[r[hdr.index(f)] for f in bh] for r in A]
            check(multiset_eq(added[1:], ref_complement(Bp, Ap, strict)), 'added != b - a', A, B, strict, added[1:])
            check(multiset_eq(subtracted[1:], ref_complement(A, B, strict)), 'subtracted != a - b', A, B, strict,
                  subtracted[1:])
        elif op == 'hashcomplement':
            out = [tuple(r) for r in petl.hashcomplement(ta, tb, strict=strict)]
            check(out[0] == tuple(hdr), 'header', out[0])
            check(_seq_eq(out[1:], ref_complement(A, B, strict)), 'hashcomplement != a - b in a\'s order', A, B, strict,
                  out[1:])
        elif op == 'hashintersection':
            out = [tuple(r) for r in petl.hashintersection(ta, tb)]
            check(out[0] == tuple(hdr), 'header', out[0])
            check(_seq_eq(out[1:], ref_intersection(A, B)), 'hashintersection != a & b in a\'s order', A, B, out[1:])
        elif op == 'reassemble':
            c = [tuple(r) for r in petl.complement(ta, tb, **kw)][1:]
            i = [tuple(r) for r in petl.intersection(ta, tb, **kw)][1:]
            check(multiset_eq(c + i, [tuple(r) for r in A]), 'complement + intersection != a', A, B, c, i)
            hc = [tuple(r) for r in petl.hashcomplement(ta, tb)][1:]
            hi = [tuple(r) for r in petl.hashintersection(ta, tb)][1:]
            check(multiset_eq(hc, c) and multiset_eq(hi, i), 'hash variants differ from sort variants', c, hc, i, hi)
        else:
            raise ValueError(op)


# --------------------------------------------------------------------------
BOUNDS = {
    'quick': 'a, b: row counts symbolic in [0,2] with 2 columns / [0,3] with 1 column; cells None|int in [0,2) or '
             'int in [0,3) or None|int|{a,b} (a data row may equal the header); strict symbolic; buffersize {None,1}; presorted inputs '
             'given as lists (assumed sorted); record* operators with 3 fields in a non-self-inverse order',
    'thorough': 'row counts up to 3x2 / 2x3 with 2 columns, 4x2 / 3x3 with 1 column (sized so that the trees exhaust within budget)',
}
OUTSIDE = 'rows whose length differs from the header (statement: rectangular); more rows/columns than the bound; presorted=True (C11)'
STUBS = ['PickleStub (buffersize=1 jobs)', 'private temp dir per path']
ASSUMPTIONS = ['cells range over a small domain large enough to realise every equality pattern between the compared cells (C-level Counter hashing realises symbolic ints)']
RULE = 'Jobs case-split (operator, shape bound, columns, domain, buffersize); row counts, cells and strict symbolic.'

OPS = ('complement', 'intersection', 'diff', 'recordcomplement', 'recorddiff', 'hashcomplement', 'hashintersection',
       'reassemble')


def jobs(tier):
    q = tier == 'quick'
    out = []
    for op in OPS:
        shapes = [(2, 2, 2, 'Id2+Id2'), (2, 1, 2, 'Od2+Id2'), (1, 2, 2, 'Id2+Od2'), (3, 2, 1, 'Id3'), (2, 3, 1, 'Od2'),
                  (2, 2, 1, 'Md2')] if q else \
            [(2, 2, 2, 'Id2+Od2'), (3, 2, 2, 'Id2+Id2'), (2, 3, 2, 'Id2+Id2'), (4, 2, 1, 'Id3'), (3, 3, 1, 'Od2'),
             (3, 3, 1, 'Md2')]
        for (na, nb, nc, dom) in shapes:
            if op.startswith('record') and nc == 1:
                continue
            for bs in ((None, 1) if op in ('complement', 'intersection', 'diff') and (na, nb, nc) == shapes[0][:3] else (None,)):
                out.append(dict(name='%s/%dx%d/cols=%d/%s/bs=%s' % (op, na, nb, nc, dom, bs), func='setop',
                                params=dict(op=op, NA=na, NB=nb, ncols=nc, dom=dom, bs=bs),
                                budget=180 if q else 1200))
    for op in ('complement', 'intersection', 'diff'):
        out.append(dict(name='%s/presorted/2x2/cols=1/Od2' % op, func='setop',
                        params=dict(op=op, NA=2, NB=2 if q else 3, ncols=1, dom='Od2', presorted=True), budget=180 if q else 1200))
    for op in ('recordcomplement', 'recorddiff'):
        out.append(dict(name='%s/cols=3/Id2+Id2+Id2/bs=None' % op, func='setop',
                        params=dict(op=op, NA=2 if q else 3, NB=1 if (q and op == 'recorddiff') else 2, ncols=3, dom='Id2+Id2+Id2', bs=None),
                        budget=240 if q else 1200))
    return out
