"""C06 - sort-merge joins implement the relational operators exactly."""
import petl

from engine.ref import cells_eq, ref_lt
from engine.shim import assume, check
from engine.stubs import pickle_stub, private_tempdir

from .common import cell, nrows

PROPERTY = 'C06'

MISS = {'none': None, 'tag': 'MISSING'}


def _side(sym, side, n, dom, compound, ragged):
    """rows [tag, k(, j)] ; ragged: a row may lose trailing cells or gain one."""
    rows = []
    for i in range(n):
        tag = '%s%d' % (side, i)
        row = [tag, cell(sym, '%s%d.k' % (side, i), dom)]
        if compound:
            row.append(cell(sym, '%s%d.j' % (side, i), dom))
        if ragged:
            w = len(row)
            ln = sym.choice('%s%d.len' % (side, i), w + 1) + 1    # 1 .. w+1 cells
            row = (row + ['EXTRA'])[:ln]
        rows.append(row)
    return rows


def _key(row, compound, missing):
    """Key of a row after squaring up with ``missing``."""
    k = row[1] if len(row) > 1 else missing
    if not compound:
        return k
    return (k, row[2] if len(row) > 2 else missing)


def _keys_eq(a, b, compound):
    if compound:
        return cells_eq(a[0], b[0]) and cells_eq(a[1], b[1])
    return cells_eq(a, b)


def _build(sym, NL, NR, dom, compound, ragged, spelling, prefix, missing):
    nl = nrows(sym, 'nL', NL)
    nr = nrows(sym, 'nR', NR)
    L = _side(sym, 'L', nl, dom, compound, ragged)
    R = _side(sym, 'R', nr, dom, compound, ragged)
    if spelling == 'lrkey':
        lh = ['a', 'lk'] + (['lj'] if compound else [])
        rh = ['b', 'rk'] + (['rj'] if compound else [])
        kw = dict(lkey=('lk', 'lj') if compound else 'lk', rkey=('rk', 'rj') if compound else 'rk')
    else:
        lh = ['a', 'k'] + (['j'] if compound else [])
        rh = ['b', 'k'] + (['j'] if compound else [])
        kw = dict(key=('k', 'j') if compound else 'k') if spelling == 'key' else {}
        if spelling == 'keyrev':
            # compound key listed against the column order of both tables (same relation, same output header)
            assert compound
            kw = dict(key=('j', 'k'))
    if prefix is True or prefix == 'both':
        kw.update(lprefix='l_', rprefix='r_')
    elif prefix == 'left':
        kw.update(lprefix='l_')
    elif prefix == 'right':
        kw.update(rprefix='r_')
    return L, R, lh, rh, kw


def _exp_header(lh, rh, prefix):
    lp = prefix in (True, 'both', 'left')
    rp = prefix in (True, 'both', 'right')
    out = [('l_' + f if lp else f) for f in lh]
    out.append('r_b' if rp else 'b')
    return tuple(out)


def verify_join(out, kind, L, R, lh, rh, lkeys, rkeys, compound, prefix, missing, order='key'):
    """Check ``out`` (list of tuples, header first) against the relational
    definition.  kind in join/leftjoin/rightjoin/outerjoin/lookupjoin.
    order: 'key' (ascending key order), 'left' / 'right' (order of the streamed
    side, partners in the other side's table order)."""
    W = len(lh)
    leftouter = kind in ('leftjoin', 'outerjoin', 'lookupjoin')
    rightouter = kind in ('rightjoin', 'outerjoin')
    check(len(out) >= 1 and out[0] == _exp_header(lh, rh, prefix), 'header', out[:1])
    data = out[1:]
    ltags = dict((r[0], i) for i, r in enumerate(L))
    rtags = dict((r[0], j) for j, r in enumerate(R))
    # expected pairs, decided pair by pair
    match = [[_keys_eq(lkeys[i], rkeys[j], compound) for j in range(len(R))] for i in range(len(L))]
    if kind == 'lookupjoin':
        # first partner in key-sorted (stable) order == first in input order
        exp_pairs = set()
        for i in range(len(L)):
            for j in range(len(R)):
                if match[i][j]:
                    exp_pairs.add((i, j))
                    break
    else:
        exp_pairs = set((i, j) for i in range(len(L)) for j in range(len(R)) if match[i][j])
    l_unmatched = set(i for i in range(len(L)) if not any(match[i])) if leftouter else set()
    r_unmatched = set(j for j in range(len(R)) if not any(match[i][j] for i in range(len(L)))) \
        if rightouter else set()
    seen_pairs, seen_l, seen_r = [], [], []
    outkeys, outpos = [], []
    for r in data:
        check(len(r) == W + 1, 'output row length', r)
        a, b = r[0], r[W]
        kcells = r[1:W]
        if a in ltags and b in rtags:
            i, j = ltags[a], rtags[b]
            check((i, j) in exp_pairs, 'row pairs rows with unequal keys (or a non-first partner)', r)
            check((i, j) not in seen_pairs, 'pair emitted twice', r)
            seen_pairs.append((i, j))
            k = lkeys[i]
            outpos.append((i, j))
        elif a in ltags:
            i = ltags[a]
            check(b is missing or b == missing, 'right part not padded with missing', r)
            check(i in l_unmatched, 'left row emitted as unmatched but it has a partner / op is not left-outer', r)
            check(i not in seen_l, 'unmatched left row emitted twice', r)
            seen_l.append(i)
            k = lkeys[i]
            outpos.append((i, -1))
        elif b in rtags:
            j = rtags[b]
            check(a is missing or a == missing, 'left part not padded with missing', r)
            check(j in r_unmatched, 'right row emitted as unmatched but it has a partner / op is not right-outer', r)
            check(j not in seen_r, 'unmatched right row emitted twice', r)
            seen_r.append(j)
            k = rkeys[j]
            outpos.append((-1, j))
        else:
            check(False, 'row made of neither input', r)
        kt = k if compound else (k,)
        check(len(kcells) == len(kt) and all(cells_eq(x, y) for x, y in zip(kcells, kt)),
              'key cells of output row differ from the source row key', r, kt)
        outkeys.append(k)
    check(len(seen_pairs) == len(exp_pairs), 'missing matched pair(s)', sorted(exp_pairs), sorted(seen_pairs))
    check(len(seen_l) == len(l_unmatched), 'missing unmatched left row(s)', sorted(l_unmatched), seen_l)
    check(len(seen_r) == len(r_unmatched), 'missing unmatched right row(s)', sorted(r_unmatched), seen_r)
    if order == 'key':
        for x in range(len(outkeys) - 1):
            check(not ref_lt(outkeys[x + 1], outkeys[x]), 'output not grouped in ascending key order',
                  outkeys[x], outkeys[x + 1])
    elif order == 'left':
        check(outpos == sorted(outpos), 'rows not in the order of the streamed (left) side', outpos)
    elif order == 'right':
        sw = [(j, i) for i, j in outpos]
        check(sw == sorted(sw), 'rows not in the order of the streamed (right) side', outpos)


def join_op(sym, op, NL, NR, dom, compound=False, ragged=False, spelling='key', prefix=False,
            miss='none', bs=None):
    missing = MISS[miss]
    L, R, lh, rh, kw = _build(sym, NL, NR, dom, compound, ragged, spelling, prefix, missing)
    if op in ('leftjoin', 'rightjoin', 'outerjoin', 'lookupjoin'):
        kw['missing'] = missing
    pad = missing if op != 'join' else None
    lkeys = [_key(r, compound, pad) for r in L]
    rkeys = [_key(r, compound, pad) for r in R]
    with pickle_stub(), private_tempdir() as td:
        view = getattr(petl, op)([lh] + L, [rh] + R, buffersize=bs, tempdir=td, **kw)
        out = [tuple(r) for r in view]
        del view
    verify_join(out, op, L, R, lh, rh, lkeys, rkeys, compound, prefix, missing, order='key')


def antijoin_op(sym, NL, NR, dom, compound=False, spelling='key', bs=None, rswap=False):
    L, R, lh, rh, kw = _build(sym, NL, NR, dom, compound, False, spelling, False, None)
    kw.pop('lprefix', None)
    tR = [rh] + R
    if rswap:            # same key name at another column position on the right
        tR = [list(reversed(rh))] + [list(reversed(r)) for r in R]
    lkeys = [_key(r, compound, None) for r in L]
    rkeys = [_key(r, compound, None) for r in R]
    with pickle_stub(), private_tempdir() as td:
        out = [tuple(r) for r in petl.antijoin([lh] + L, tR, buffersize=bs, tempdir=td, **kw)]
    check(len(out) >= 1 and out[0] == tuple(lh), 'header', out[:1])
    exp = [i for i in range(len(L)) if not any(_keys_eq(lkeys[i], rkeys[j], compound) for j in range(len(R)))]
    ltags = dict((r[0], i) for i, r in enumerate(L))
    seen = []
    for r in out[1:]:
        check(len(r) == len(lh) and r[0] in ltags, 'not a left row', r)
        i = ltags[r[0]]
        check(i in exp, 'left row with a partner returned', r)
        check(i not in seen, 'row returned twice', r)
        check(all(cells_eq(x, y) for x, y in zip(r, L[i])), 'row changed', r, L[i])
        seen.append(i)
    check(len(seen) == len(exp), 'unmatched left row(s) missing', exp, seen)
    for x in range(len(seen) - 1):
        check(not ref_lt(lkeys[seen[x + 1]], lkeys[seen[x]]), 'not in ascending key order')


def crossjoin_op(sym, N1, N2, N3, ragged, prefix, missing=None):
    ns = [nrows(sym, 'n1', N1), nrows(sym, 'n2', N2)]
    if N3 is not None:
        ns.append(nrows(sym, 'n3', N3))
    tables, hdrs = [], []
    for t, n in enumerate(ns):
        hdr = ['f%d' % t, 'g%d' % t]
        rows = []
        for i in range(n):
            row = ['T%d_%d' % (t, i), None if (t + i) % 3 == 2 else t * 10 + i]   # cell values are never compared
            if ragged:
                ln = sym.choice('t%d.%d.len' % (t, i), 3) + 1
                row = (row + ['EXTRA'])[:ln]
            rows.append(row)
        tables.append([hdr] + rows)
        hdrs.append(hdr)
    out = [tuple(r) for r in petl.crossjoin(*tables, prefix=prefix, missing=missing)]
    exp_hdr = []
    for t, hdr in enumerate(hdrs):
        exp_hdr.extend([('%d_%s' % (t + 1, f)) if prefix else f for f in hdr])
    check(out[0] == tuple(exp_hdr), 'header', out[0], exp_hdr)
    # expected: cartesian product, squared-up rows, row-major order
    def sq(r):
        return (tuple(r) + (missing, missing))[:2]
    exp = [()]
    for t in tables:
        exp = [e + sq(r) for e in exp for r in t[1:]]
    check(len(out) - 1 == len(exp), 'row count', len(out) - 1, len(exp))
    for r, e in zip(out[1:], exp):
        check(len(r) == len(e) and all(cells_eq(x, y) for x, y in zip(r, e)), 'row', r, e)


# --------------------------------------------------------------------------
BOUNDS = {
    'quick': 'left x right <= 2x2 data rows (row counts symbolic in [0,2]); keys: unbounded int, None|int, '
             'None|int|str; compound keys (None|int in [0,2)) up to 2x1; ragged rows (short/long) 2x1 and 1x2; key '
             'spellings key= / lkey=,rkey= / natural; prefixes; missing in {None, marker}; buffersize {None,1}; '
             'cross-type representative keys (2x1, 1x2); a prefix on one side only; key field at another column position on the right '
             '(antijoin); crossjoin 2x2 and 1x2x1 with ragged rows and a missing marker',
    'thorough': 'as quick with 3x3 (int keys), 3x2 / 2x3 (None|int, mixed), compound 2x2, ragged 2x2',
}
OUTSIDE = 'more rows than the bound; keys of other types (their ordering is C04); presorted=True (C11)'
STUBS = ['PickleStub (only reached when buffersize forces chunk files)', 'private temp dir per path']
ASSUMPTIONS = ['row identity is tracked by a concrete tag cell per row (tags never take part in keys)']
RULE = 'Jobs case-split (operator, key domain, shape bound, compound, ragged, key spelling, prefix, missing, buffersize).'

OPS = ('join', 'leftjoin', 'rightjoin', 'outerjoin', 'lookupjoin')


def jobs(tier):
    q = tier == 'quick'
    out = []

    def add(op, NL, NR, dom, budget=None, **kw):
        name = '%s/%dx%d/%s' % (op, NL, NR, dom) + ''.join('/%s=%s' % (k, v) for k, v in sorted(kw.items()))
        p = dict(op=op, NL=NL, NR=NR, dom=dom)
        p.update(kw)
        out.append(dict(name=name, func='join_op', params=p, budget=budget or (120 if q else 900),
                        bounds='%dx%d rows, keys %s' % (NL, NR, dom)))

    for op in OPS:
        if q:
            add(op, 2, 2, 'I')
            add(op, 2, 2, 'O')
            add(op, 2, 2, 'O', miss='tag')
            add(op, 2, 1, 'M')
            add(op, 1, 2, 'M')
            add(op, 2, 1, 'X', budget=300)
            add(op, 1, 2, 'X', budget=300)
            add(op, 2, 1, 'Od2', compound=True)
            add(op, 1, 2, 'Od2', compound=True)
            add(op, 2, 1, 'O', ragged=True, miss='tag')
            add(op, 1, 2, 'O', ragged=True)
            add(op, 2, 2, 'O', spelling='lrkey', prefix=True)
            add(op, 1, 1, 'O', prefix='left')
            add(op, 1, 1, 'O', prefix='right')
            add(op, 2, 2, 'I', spelling='natural')
            add(op, 2, 2, 'O', bs=1)
        else:
            add(op, 3, 3, 'I')
            add(op, 3, 2, 'O')
            add(op, 2, 3, 'O')
            add(op, 3, 2, 'O', miss='tag')
            add(op, 2, 2, 'M')
            add(op, 3, 1, 'M')
            add(op, 1, 3, 'M')
            add(op, 2, 2, 'X')
            add(op, 2, 2, 'Od2', compound=True)
            add(op, 2, 2, 'O', ragged=True, miss='tag')
            add(op, 2, 2, 'O', ragged=True)
            add(op, 3, 2, 'O', spelling='lrkey', prefix=True)
            add(op, 2, 3, 'I', spelling='natural')
            add(op, 3, 2, 'O', bs=1)
            add(op, 2, 3, 'O', bs=2)
    for (NL, NR, dom, kw) in ([(2, 2, 'I', {}), (2, 2, 'O', {}), (2, 1, 'M', {}), (1, 2, 'M', {}),
                               (2, 1, 'Od2', dict(compound=True)), (2, 2, 'O', dict(spelling='lrkey')),
                               (2, 2, 'O', dict(bs=1)), (2, 2, 'O', dict(rswap=True)), (2, 1, 'Od2', dict(compound=True, rswap=True))] if q else
                              [(3, 3, 'I', {}), (3, 2, 'O', {}), (2, 3, 'O', {}), (2, 2, 'M', {}),
                               (2, 2, 'Od2', dict(compound=True)), (3, 2, 'O', dict(spelling='lrkey')),
                               (3, 2, 'O', dict(bs=1)), (2, 3, 'O', dict(spelling='natural')), (3, 2, 'O', dict(rswap=True)),
                               (2, 2, 'Od2', dict(compound=True, rswap=True))]):
        p = dict(NL=NL, NR=NR, dom=dom)
        p.update(kw)
        out.append(dict(name='antijoin/%dx%d/%s' % (NL, NR, dom) + ''.join('/%s=%s' % kv for kv in sorted(kw.items())),
                        func='antijoin_op', params=p, budget=120 if q else 900))
    out.append(dict(name='crossjoin/2x2/ragged/missing=marker', func='crossjoin_op',
                    params=dict(N1=2, N2=2, N3=None, ragged=True, prefix=False, missing='MISSING'), budget=120 if q else 600))
    for (a, b, c) in ([(2, 2, None), (1, 2, 1)] if q else [(3, 2, None), (2, 2, 2)]):
        for ragged in (False, True):
            for prefix in (False, True):
                out.append(dict(name='crossjoin/%dx%dx%s/ragged=%d/prefix=%d' % (a, b, c, ragged, prefix),
                                func='crossjoin_op', params=dict(N1=a, N2=b, N3=c, ragged=ragged, prefix=prefix),
                                budget=120 if q else 600))
    return out
