"""C17 - database loads round-trip and are all-or-nothing when the source
fails.  Real sqlite3 on a real file in a private directory."""
import os
import sqlite3

import petl

from engine.shim import check
from engine.stubs import FailingSource, SourceFailure, private_tempdir

PROPERTY = 'C17'

KINDS = ['filename', 'connection', 'cursor', 'mkcursor']


def _read(path):
    con = sqlite3.connect(path, timeout=0.2)
    try:
        return [tuple(r) for r in con.execute('SELECT a, b FROM t ORDER BY rowid')]
    finally:
        con.close()


def load_op(sym, N, P):
    n = sym.choice('n', N + 1)
    p = sym.choice('prior', P + 1)
    op = sym.pick('op', ['todb', 'appenddb'])
    kind = sym.pick('kind', KINDS)
    commit = sym.flag('commit')
    # failure position: 0 = at the header, 1..n = at data row i, n+1 = at exhaustion, n+2 = none
    f = sym.choice('fail_at', n + 3)
    fail_at = None if f == n + 2 else f
    prior = [(100 + i, 'p%d' % i) for i in range(p)]
    rows = [(i, 'r%d' % i) for i in range(n)]
    exc = sym.pick('exception', [SourceFailure, TypeError, KeyError, ValueError]) if fail_at is not None else SourceFailure
    source = FailingSource([('a', 'b')] + rows, fail_at, exc)
    with private_tempdir() as td:
        path = os.path.join(td, 'db.sqlite')
        con0 = sqlite3.connect(path)
        con0.execute('CREATE TABLE t (a INTEGER, b TEXT)')
        con0.executemany('INSERT INTO t VALUES (?, ?)', prior)
        con0.commit()
        con0.close()
        check(_read(path) == prior, 'setup')
        conn = cur = None
        if kind == 'filename':
            handle = path
        else:
            conn = sqlite3.connect(path)
            if kind == 'connection':
                handle = conn
            elif kind == 'cursor':
                cur = conn.cursor()
                handle = cur
            else:
                handle = lambda: conn.cursor()
        raised = False
        try:
            getattr(petl, op)(source, handle, 't', commit=commit)
        except exc:
            raised = True
        check(raised == (fail_at is not None), 'source failure must surface (and only then)', fail_at, raised)
        loaded = (prior if op == 'appenddb' else []) + rows
        committed = loaded if (not raised and commit) else prior
        # (1) control has returned: a fresh connection sees committed state only
        check(_read(path) == committed, 'fresh connection right after the call', op, kind, commit, fail_at,
              _read(path), committed)
        if conn is not None:
            if not raised and not commit:
                # petl must have done the work inside the caller's transaction
                got = [tuple(r) for r in conn.execute('SELECT a, b FROM t ORDER BY rowid')]
                check(got == loaded, 'uncommitted load not visible on the caller\'s connection', got, loaded)
            conn.close()        # implicit rollback of whatever is pending
            check(_read(path) == committed, 'fresh connection after the caller closed its connection', op, kind,
                  commit, fail_at, _read(path), committed)
        # round trip through petl itself
        back = [tuple(r) for r in petl.fromdb(lambda: sqlite3.connect(path).cursor(), 'SELECT a, b FROM t ORDER BY rowid')]
        check(back == [('a', 'b')] + committed, 'fromdb round trip', back)


def bulk_op(sym, sizes):
    """Loads of about a thousand rows (drivers / helpers that work in batches)."""
    n = sym.pick('n', sizes)
    op = sym.pick('op', ['todb', 'appenddb'])
    kind = sym.pick('kind', KINDS)
    commit = sym.flag('commit')
    f = sym.pick('fail_at', [None, 1, 500, 1000, 1001, n, n + 1])
    if f is not None and f > n + 1:
        return
    prior = [(-1, 'p')]
    rows = [(i, 'r') for i in range(n)]
    source = FailingSource([('a', 'b')] + rows, f)
    with private_tempdir() as td:
        path = os.path.join(td, 'db.sqlite')
        con0 = sqlite3.connect(path)
        con0.execute('CREATE TABLE t (a INTEGER, b TEXT)')
        con0.executemany('INSERT INTO t VALUES (?, ?)', prior)
        con0.commit()
        con0.close()
        conn = None
        if kind == 'filename':
            handle = path
        else:
            conn = sqlite3.connect(path)
            handle = conn if kind == 'connection' else conn.cursor() if kind == 'cursor' else (lambda: conn.cursor())
        raised = False
        try:
            getattr(petl, op)(source, handle, 't', commit=commit)
        except SourceFailure:
            raised = True
        check(raised == (f is not None), 'source failure must surface (and only then)', f, raised)
        loaded = (prior if op == 'appenddb' else []) + rows
        committed = loaded if (not raised and commit) else prior
        got = _read(path)
        check(len(got) == len(committed) and got == committed, 'fresh connection right after the call (bulk)', op, kind, commit, f,
              len(got), len(committed))
        if conn is not None:
            conn.close()
            got = _read(path)
            check(got == committed, 'fresh connection after the caller closed its connection (bulk)', op, kind, commit, f, len(got))


# --------------------------------------------------------------------------
BOUNDS = {
    'quick': 'n in [0,3] data rows, prior contents of 0..2 rows, failure injected at the header / every data row / exhaustion / '
             'nowhere, handle kind in {file name, connection, cursor, cursor factory}, commit flag, todb vs appenddb: all '
             'symbolic choices; cell values concrete (they cross into _sqlite3)',
    'thorough': 'n in [0,5], prior 0..3',
}
OUTSIDE = 'SQLAlchemy / clickhouse handles (not installed); other engines\' transaction semantics; create=True (DDL autocommits in sqlite3)'
STUBS = ['FailingSource (input table that raises at a chosen position)']
ASSUMPTIONS = ['real sqlite3 library, real file; default isolation level of the sqlite3 module']
RULE = 'One job; every dimension is a solver-decided fork (the space is finite; exhaustion is certified).'


def jobs(tier):
    q = tier == 'quick'
    return [dict(name='todb-appenddb/n<=%d/prior<=%d' % ((3, 2) if q else (5, 3)), func='load_op',
                 params=dict(N=3 if q else 5, P=2 if q else 3), budget=400 if q else 1800),
            dict(name='bulk/%s' % ('1001' if q else '1000-1001-2500'), func='bulk_op',
                 params=dict(sizes=[1001] if q else [1000, 1001, 2500]), budget=400 if q else 1800, validate_every=4)]
