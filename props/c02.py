"""C02 - pipelines are lazy: nothing is read at construction, and k output rows
cost O(k) source rows independently of the source length."""
import itertools

import petl

from engine.shim import check
from engine.stubs import CountingSource, clock_stub, default_tempdir, pickle_stub, private_tempdir

from . import catalogue
from .catalogue import ALL_BY_NAME, HDR

PROPERTY = 'C02'

SLACK = 2      # the statement's "small constant"
OTHER_ROWS = [['a', 'z'], [1, 'p'], [2, 'q'], [2, 'r'], [3, 's']]
SAME_ROWS = [list(HDR), [2, 20, 'z,w'], [5, 50, 'm,n']]
EXT = [[7, 70, 'e,f'], [8, 80, 'g,h'], [9, 90, 'i,j']]


def _rows(sym, n, nsym):
    base = [[1, 10, 'x,y'], [2, 20, 'z,w'], [2, 21, 'u,v'], [3, 30, 'a,b'], [4, 40, 'c,d'], [5, 50, 'm,n']]
    rows = [list(r) for r in base[:n]]
    for i in range(min(nsym, n)):
        rows[i][0] = sym.int('a%d' % i, 1, 3)
    return rows


def _views(res, kind):
    if kind == 'pair':
        return list(res)
    return [res]


def _norm(r):
    if isinstance(r, dict):
        return tuple(sorted(r.items()))
    if isinstance(r, (list, tuple)):
        return tuple(r)
    return (r,)


def _first_rows(make, kind, idx, rows, k):
    """the first k output rows obtainable from this source prefix"""
    with _others(False):
        v = _views(make([list(HDR)] + [list(r) for r in rows]), kind)[idx]
        return [_norm(r) for r in itertools.islice(iter(v), k)]


def _need(first_rows_of, data, k, out):
    """rows of the source needed by definition for the output rows `out` (the first k of the full output, or all of it
    when the output ends earlier): the smallest prefix on which the same operator already yields exactly those rows.
    When the output ended before k rows the operator must see the end of the source."""
    if len(out) < k:
        return len(data)
    for j in range(len(data) + 1):
        if first_rows_of(data[:j]) == out:
            return j
    return len(data)


class _others(object):
    """Install fresh second inputs (counting or plain) for the catalogue closures."""

    def __init__(self, counting):
        self.counting = counting

    def __enter__(self):
        self.saved = (catalogue.OTHER, catalogue.SAME)
        o = [list(r) for r in OTHER_ROWS]
        s = [list(r) for r in SAME_ROWS]
        if self.counting:
            o, s = CountingSource(o), CountingSource(s)
        catalogue.OTHER, catalogue.SAME = o, s
        return o, s

    def __exit__(self, *a):
        catalogue.OTHER, catalogue.SAME = self.saved


def lazy(sym, name, N, nsym):
    make, opts = ALL_BY_NAME[name][1], ALL_BY_NAME[name][2]
    kind = opts.get('kind', 'table')
    stream = opts.get('stream', False)
    look = opts.get('look', 0)
    n = sym.choice('n', N + 1)
    rows = _rows(sym, n, nsym)
    extended = sym.flag('extended')                # same table followed by 3 more rows: pulls must not depend on it
    data = rows + ([list(r) for r in EXT] if extended else [])
    with pickle_stub(), private_tempdir() as td, default_tempdir(td), clock_stub([1]):
        with _others(True) as (other, same):
            src = CountingSource([list(HDR)] + data)
            res = make(src)
            # (a) construction reads no data row, at most the header
            for nm, s in (('source', src), ('second input', other), ('second input', same)):
                check(s.pulls == 0, name + ': constructing the pipeline read data rows from the ' + nm, s.pulls)
            if stream is not True:
                return
            # consulting the header of the new view (what natural joins, record* set operations and the *all functions do
            # at construction) reads no data row beyond the catalogued look-ahead
            for v0 in _views(res, kind):
                if kind in ('table', 'pair') and not opts.get('header_is_data'):
                    petl.header(v0)
                    petl.convertall(v0, str)
                    petl.fieldnames(v0)
            check(src.pulls <= max(src.iters, 1) * look, name + ': consulting the header of the view read data rows', src.pulls, look)
            src.reset()        # the bound below counts only the iterators created by the consumer
            views = _views(res, kind)
            members = opts.get('members', list(range(len(views))))
            idx = members[sym.choice('member', len(members))]
            k = sym.choice('k', N + 3)             # output rows requested (incl. header)
            it = iter(views[idx])
            out = [_norm(r) for r in itertools.islice(it, k)]
            pulled, iters, single = src.pulls, max(src.iters, 1), src.maxpulls
        # (b) rows of the source needed by definition for these output rows
        need = _need(lambda pre: _first_rows(make, kind, idx, pre, k), data, k, out)
        # 'k plus a small constant': the catalogued look-ahead, and never less than SLACK rows, so that a
        # behaviour-preserving change that reads a row or two ahead is not an alarm
        check(pulled <= iters * (need + max(look, SLACK)),
              name + ': more source rows pulled than k outputs need (+ catalogued look-ahead)', k, out, pulled, need, look, iters)
        # ... and no single source iterator (e.g. one opened only for an emptiness / length / header test) reads past
        # the rows those outputs depend on
        check(single <= need + max(look, SLACK),
              name + ': one source iterator pulled more rows than k outputs need (+ catalogued look-ahead)', k, out, single, need, look)


def display(sym, fn, N):
    """look / see / repr read only what they display."""
    n = sym.choice('n', N + 1)
    limit = sym.choice('limit', 4) + 1
    src = CountingSource([list(HDR)] + [[i, i * 10, 'x,y'] for i in range(n)])
    if fn == 'look':
        s = str(petl.look(src, limit=limit, style=sym.pick('style', ['grid', 'simple', 'minimal'])))
    elif fn == 'see':
        s = str(petl.see(src, limit=limit))
    elif fn == 'repr':
        saved = petl.config.look_limit
        petl.config.look_limit = limit
        try:
            petl.config.look_style, saved_style = sym.pick('style', ['grid', 'simple', 'minimal']), petl.config.look_style
            try:
                s = repr(petl.wrap(src))
            finally:
                petl.config.look_style = saved_style
        finally:
            petl.config.look_limit = saved
    elif fn == 'head-nrows':
        s = petl.nrows(petl.head(src, limit))
    elif fn == 'islice-pipeline':
        t = petl.addfield(petl.convert(petl.select(src, lambda r: True), 'b', lambda v: v + 1), 'd', 0)
        s = list(itertools.islice(iter(t), limit + 1))
    check(src.pulls <= limit + SLACK, fn + ': displaying `limit` rows pulled more than limit + small constant source rows', n, limit, src.pulls)


CHAIN = ['convert', 'replace', 'update', 'select-row', 'selectge', 'rowslice', 'sub', 'fillright', 'search-all', 'skipcomments',
         'wrap', 'addfield-fn', 'suffixheader', 'cut-index', 'addrownumbers', 'filldown', 'cat', 'head']


def chain(sym, N, names):
    """A composition of streaming operators is streaming: pulls for k rows do not depend on the source length."""
    makes = [ALL_BY_NAME[nm][1] for nm in names]
    n = sym.choice('n', N + 1)
    rows = _rows(sym, n, 1)
    k = sym.choice('k', N + 3)

    def build(t):
        for m in makes:
            t = m(t)
        return t
    with pickle_stub():
        src = CountingSource([list(HDR)] + rows + [list(r) for r in EXT])
        v = build(src)
        check(src.pulls == 0, 'chain: construction read data rows', src.pulls)
        out = [_norm(r) for r in itertools.islice(iter(v), k)]
        pulled = src.pulls
        data = rows + [list(r) for r in EXT]
        need = _need(lambda pre: [_norm(r) for r in itertools.islice(iter(build([list(HDR)] + [list(r) for r in pre])), k)],
                     data, k, out)
        check(pulled <= max(src.iters, 1) * (need + SLACK), 'chain: more source rows pulled than k outputs need', names, k, out,
              pulled, need)


# --------------------------------------------------------------------------
BOUNDS = {
    'quick': 'every catalogue entry: construction reads no data row from any input (source n in [0,3] rows, with/without 3 more '
             'rows); streaming entries: k in [0,n+2] output rows pull at most (rows needed by definition for those outputs + the '
             'catalogued look-ahead) per source iterator - as a sum over the iterators and for each single iterator -, with 1 symbolic key cell; display functions with limit in [1,4] over up '
             'to 8 rows; 6 chains of 3-4 streaming operators',
    'thorough': 'n in [0,5], 2 symbolic cells; all ordered pairs of the 18 chainable operators',
}
OUTSIDE = ('byte-level read-ahead of file-backed extractors (buffered I/O reads blocks); sort-backed and materialising operators (statement); '
           'the build side of hash joins (read completely by design)')
STUBS = ['CountingSource on every input', 'PickleStub', 'private temp dir', 'ClockStub']
ASSUMPTIONS = ['"rows needed by definition" for k outputs = the smallest source prefix on which the same real operator yields as many '
               'rows (monotone for streaming operators)', 'the small constant of the statement is 2 rows per source iterator (or the catalogued look-ahead where larger)']
RULE = 'One job per catalogue entry; source length, extension flag, k and key cells symbolic.'


def jobs(tier):
    q = tier == 'quick'
    N = 3 if q else 5
    out = []
    for (name, make, opts) in catalogue.ALL:
        if (opts.get('kind') in ('value', 'noraise', 'dict', 'values') and not opts.get('stream')) or opts.get('eager'):
            continue
        out.append(dict(name='lazy/%s/n<=%d' % (name, N), func='lazy', params=dict(name=name, N=N, nsym=1 if q else 2),
                        budget=150 if q else 1200))
    for fn in ('look', 'see', 'repr', 'head-nrows', 'islice-pipeline'):
        out.append(dict(name='display/%s' % fn, func='display', params=dict(fn=fn, N=8), budget=150))
    if q:
        chains = [CHAIN[0:4], CHAIN[4:8], CHAIN[8:12], CHAIN[12:15], ['select-row', 'cat', 'head'], ['cat', 'selectge', 'rowslice']]
    else:
        # header-changing operators can only come last (the operators after them address fields by their original names)
        chains = [[a, b] for a in CHAIN for b in CHAIN if a != b and a not in ('suffixheader', 'cut-index')]
    for c in chains:
        out.append(dict(name='chain/' + '+'.join(c), func='chain', params=dict(N=N, names=c), budget=150 if q else 600))
    return out
