"""C12 - row- and field-level transforms touch only what they are asked to.
Cell-by-cell reference models of the documented behaviour."""
from collections import OrderedDict

import petl
from petl.errors import FieldSelectionError

from engine.shim import assume, check

from .common import nrows

PROPERTY = 'C12'

HDRS = {'abc': ['a', 'b', 'c'], 'dup': ['a', 'a', 'c'], 'num': ['0', '1', '2']}


def _table(sym, N, hk, ragged, nullable=False):
    hdr = list(HDRS[hk])
    n = nrows(sym, 'n', N)
    rows = []
    for i in range(n):
        row = ['r%dc%d' % (i, j) for j in range(4)]
        if nullable:
            for j in range(3):
                if sym.flag('r%dc%d.none' % (i, j)):
                    row[j] = None
        ln = (sym.choice('r%d.len' % i, 4) + 1) if ragged else 3
        rows.append(row[:ln])
    return hdr, rows


def _out(view):
    return [tuple(r) for r in view]


def _get(row, i, missing):
    return row[i] if i < len(row) else missing


def _sq(row, w, missing):
    row = list(row)[:w]
    return row + [missing] * (w - len(row))


def _eq(got, exp, what, *ctx):
    check(len(got) == len(exp), what + ': number of rows', got, exp, *ctx)
    for g, e in zip(got, exp):
        check(tuple(g) == tuple(e), what + ': row differs from the documented result', g, e, *ctx)


def _resolve(hdr, spec):
    """documented field selection: an int < len(hdr) is an index (priority), else a name (first unused match)"""
    flds = [str(f) for f in hdr]
    out = []
    for s in spec:
        if isinstance(s, int) and not isinstance(s, bool) and s < len(hdr):
            out.append(s)
        elif s in flds:
            i = flds.index(s)
            out.append(i)
            flds[i] = None
        else:
            return None
    return out


SELECTORS = ['a', 'b', 'c', '0', '1', '2', 0, 1, 2, 3, -1, 'zz']


def select_ops(sym, op, N, hk, ragged, two=True):
    hdr, rows = _table(sym, N, hk, ragged)
    table = [hdr] + rows
    missing = sym.pick('missing', [None, 'M'])
    s1 = sym.pick('sel1', SELECTORS)
    spec = [s1] if (two is False or sym.flag('one')) else [s1, sym.pick('sel2', SELECTORS)]
    idx = _resolve(hdr, spec)
    if any(isinstance(s, int) and s < 0 for s in spec):
        idx = 'neg'                      # negative indices: not documented; only "no crash other than selection error"
    try:
        if op == 'cut':
            got = _out(petl.cut(table, *spec, missing=missing))
        elif op == 'cut-list':
            got = _out(petl.cut(table, list(spec), missing=missing))
        elif op == 'cutout':
            got = _out(petl.cutout(table, *spec, missing=missing))
        else:
            raise ValueError(op)
    except FieldSelectionError:
        check(idx is None or idx == 'neg', op + ': FieldSelectionError for a valid selection', hdr, spec)
        return
    except IndexError:
        check(idx == 'neg', op + ': IndexError', hdr, spec)
        return
    if idx == 'neg':
        return
    check(idx is not None, op + ': invalid selection accepted', hdr, spec, got[:1])
    if op.startswith('cutout'):
        keep = [i for i in range(len(hdr)) if i not in idx]
    else:
        keep = idx
    exp = [tuple(hdr[i] for i in keep)] + [tuple(_get(r, i, missing) for i in keep) for r in rows]
    _eq(got, exp, op, hdr, spec)


def move_op(sym, N, hk, ragged):
    hdr, rows = _table(sym, N, hk, ragged)
    table = [hdr] + rows
    f = sym.pick('field', hdr) if hk != 'dup' else 'c'       # with a duplicated name elsewhere, move the distinct one
    index = sym.pick('index', [0, 1, 2, 3, 5, -1, -2, -4])
    got = _out(petl.movefield(table, f, index))
    idx = [i for i, x in enumerate(hdr) if x != f]
    idx.insert(index, hdr.index(f))
    oh = [hdr[i] for i in idx]
    order = idx
    exp = [tuple(oh)] + [tuple(_get(r, i, None) for i in order) for r in rows]
    _eq(got, exp, 'movefield', hdr, f, index)


def concat_ops(sym, op, N, ragged):
    h1, r1 = ['a', 'b', 'c'], None
    n1, n2 = nrows(sym, 'n1', N), nrows(sym, 'n2', N)
    def mk(p, n, w):
        rows = []
        for i in range(n):
            row = ['%s%dc%d' % (p, i, j) for j in range(w + 1)]
            ln = (sym.choice('%s%d.len' % (p, i), w + 1) + 1) if ragged else w
            rows.append(row[:ln])
        return rows
    h2 = sym.pick('h2', [['a', 'b', 'c'], ['c', 'd'], ['b', 'a'], ['x']])
    r1, r2 = mk('p', n1, 3), mk('q', n2, len(h2))
    t1, t2 = [h1] + r1, [list(h2)] + r2
    missing = sym.pick('missing', [None, 'M'])
    if op == 'cat':
        got = _out(petl.cat(t1, t2, missing=missing))
        oh = list(h1) + [f for f in h2 if f not in h1]
        exp = [tuple(oh)]
        for hdr, rows in ((h1, r1), (h2, r2)):
            for r in rows:
                exp.append(tuple(_get(r, hdr.index(f), missing) if f in hdr else missing for f in oh))
        _eq(got, exp, 'cat', h2)
    elif op == 'cat-header':
        oh = ['c', 'zz', 'a']
        got = _out(petl.cat(t1, t2, missing=missing, header=oh))
        exp = [tuple(oh)]
        for hdr, rows in ((h1, r1), (h2, r2)):
            for r in rows:
                exp.append(tuple(_get(r, hdr.index(f), missing) if f in hdr else missing for f in oh))
        _eq(got, exp, 'cat header=', h2)
    elif op == 'stack':
        trim, pad = sym.flag('trim'), sym.flag('pad')
        got = _out(petl.stack(t1, t2, missing=missing, trim=trim, pad=pad))
        exp = [tuple(h1)]
        for r in r1 + r2:
            o = list(r)
            if trim:
                o = o[:3]
            if pad and len(o) < 3:
                o = o + [missing] * (3 - len(o))
            exp.append(tuple(o))
        _eq(got, exp, 'stack', trim, pad)
    elif op == 'annex':
        got = _out(petl.annex(t1, t2, missing=missing))
        exp = [tuple(h1 + list(h2))]
        for i in range(max(n1, n2)):
            a = _sq(r1[i], 3, missing) if i < n1 else [missing] * 3
            b = _sq(r2[i], len(h2), missing) if i < n2 else [missing] * len(h2)
            exp.append(tuple(a + b))
        _eq(got, exp, 'annex', h2)


def add_ops(sym, op, N, ragged):
    hdr, rows = _table(sym, N, 'abc', ragged)
    table = [hdr] + rows
    missing = sym.pick('missing', [None, 'M'])
    sq = [_sq(r, 3, missing) for r in rows]
    if op in ('addfield-const', 'addfield-fn'):
        index = sym.pick('index', [None, 0, 1, 3, 7, -1, -5])
        if op == 'addfield-const':
            got = _out(petl.addfield(table, 'd', 'V', index=index, missing=missing))
            vals = ['V'] * len(rows)
        else:
            got = _out(petl.addfield(table, 'd', lambda rec: ('f', rec['a'], rec[2]), index=index, missing=missing))
            vals = [('f', r[0], r[2]) for r in sq]
        oh = list(hdr)
        oh.insert(3 if index is None else index, 'd')
        exp = [tuple(oh)]
        for r, v in zip(sq, vals):
            o = list(r)
            o.insert(3 if index is None else index, v)
            exp.append(tuple(o))
        _eq(got, exp, op, index)
    elif op == 'addfields':
        i2 = sym.pick('index', [0, 2, 9])
        got = _out(petl.addfields(table, [('d', 'V'), ('e', lambda rec: ('f', rec['c'])), ('g', 'W', i2)], missing=missing))
        oh = list(hdr) + ['d']
        oh.insert(len(oh), 'e')
        oh.insert(i2, 'g')
        exp = [tuple(oh)]
        for r in sq:
            o = list(r) + ['V']
            o.insert(len(o), ('f', r[2]))
            o.insert(i2, 'W')
            exp.append(tuple(o))
        _eq(got, exp, op, i2)
    elif op == 'addcolumn':
        m = sym.choice('collen', N + 2)
        col = ['v%d' % i for i in range(m)]
        index = sym.pick('index', [None, 0, 2])
        got = _out(petl.addcolumn(table, 'd', col, index=index, missing=missing))
        pos = 3 if index is None else index
        oh = list(hdr)
        oh.insert(pos, 'd')
        exp = [tuple(oh)]
        for i in range(max(len(rows), m)):
            o = list(rows[i]) if i < len(rows) else [missing] * 3
            o.insert(pos, col[i] if i < m else missing)
            exp.append(tuple(o))
        _eq(got, exp, op, m, index)
    elif op == 'addrownumbers':
        start, step = sym.pick('start', [1, 0, 5]), sym.pick('step', [1, 2])
        got = _out(petl.addrownumbers(table, start=start, step=step, field='rn'))
        exp = [('rn',) + tuple(hdr)] + [(start + i * step,) + tuple(r) for i, r in enumerate(rows)]
        _eq(got, exp, op)
    elif op == 'addfieldusingcontext':
        assume(all(len(r) == 3 for r in rows))       # documented on rectangular tables

        def q(prv, cur, nxt):
            return (None if prv is None else prv[0], cur[0], None if nxt is None else nxt[0], None if prv is None else prv['d'][1])
        got = _out(petl.addfieldusingcontext(table, 'd', q))
        exp = [tuple(hdr) + ('d',)]
        prevv = None
        for i, r in enumerate(rows):
            v = (rows[i - 1][0] if i > 0 else None, r[0], rows[i + 1][0] if i + 1 < len(rows) else None,
                 prevv[1] if prevv is not None else None)
            exp.append(tuple(r) + (v,))
            prevv = v
        _eq(got, exp, op)


def header_ops(sym, op, N, hk, ragged):
    hdr, rows = _table(sym, N, hk, ragged)
    table = [hdr] + rows
    data = [tuple(r) for r in rows]                  # header functions never touch data rows
    if op == 'rename':
        form = sym.choice('form', 6)
        if form == 4 and hk == 'abc':
            got = _out(petl.rename(table, {'a': 'b', 'b': 'a'}))
            oh = ['b', 'a', 'c']
        elif form == 5 and hk == 'abc':
            got = _out(petl.rename(table, {0: 'c', 'c': 'd'}))
            oh = ['c', 'b', 'd']
        elif form >= 4:
            return
        elif form == 0:
            got = _out(petl.rename(table, hdr[0], 'X'))
            oh = ['X' if f == hdr[0] else f for f in hdr]
        elif form == 1:
            got = _out(petl.rename(table, {hdr[2]: 'Z', 1: 'Y'}))
            oh = [('Y' if i == 1 else 'Z' if f == hdr[2] else f) for i, f in enumerate(hdr)]
        elif form == 2:
            try:
                got = _out(petl.rename(table, 'nope', 'X'))
                check(False, 'rename strict: missing field accepted')
            except FieldSelectionError:
                return
        else:
            got = _out(petl.rename(table, 'nope', 'X', strict=False))
            oh = list(hdr)
        _eq(got, [tuple(oh)] + data, op, form)
    elif op == 'setheader':
        nh = sym.pick('newheader', [['x', 'y', 'z'], ['x'], ['x', 'y', 'z', 'w']])
        _eq(_out(petl.setheader(table, nh)), [tuple(nh)] + data, op)
    elif op == 'extendheader':
        _eq(_out(petl.extendheader(table, ['d', 'e'])), [tuple(hdr) + ('d', 'e')] + data, op)
    elif op == 'pushheader':
        if sym.flag('positional'):
            got = _out(petl.pushheader(table, 'x', 'y', 'z'))
        else:
            got = _out(petl.pushheader(table, ['x', 'y', 'z']))
        _eq(got, [('x', 'y', 'z'), tuple(hdr)] + data, op)
    elif op == 'prefixheader':
        _eq(_out(petl.prefixheader(table, 'p_')), [tuple('p_' + f for f in hdr)] + data, op)
    elif op == 'suffixheader':
        _eq(_out(petl.suffixheader(table, '_s')), [tuple(f + '_s' for f in hdr)] + data, op)
    elif op == 'sortheader':
        assume(hk != 'dup')
        rev = sym.flag('reverse')
        missing = sym.pick('missing', [None, 'M'])
        hh = ['c', 'a', 'b'] if hk == 'abc' else ['2', '0', '1']
        t2 = [hh] + rows
        got = _out(petl.sortheader(t2, reverse=rev, missing=missing))
        oh = sorted(hh, reverse=rev)
        order = [hh.index(f) for f in oh]
        _eq(got, [tuple(oh)] + [tuple(_get(r, i, missing) for i in order) for r in rows], op)


def convert_ops(sym, op, N, ragged):
    hdr, rows = _table(sym, N, 'abc', ragged)
    table = [hdr] + rows

    def up(v):
        return ('U', v)
    conv = {}            # index -> function, the documented effect
    if op == 'convert-fn':
        f = sym.pick('field', ['a', 'c', 1, 2])
        view = petl.convert(table, f, up)
        conv[_resolve(hdr, [f])[0]] = up
    elif op == 'convert-multi':
        view = petl.convert(table, ('a', 'c'), up)
        conv = {0: up, 2: up}
    elif op == 'convert-dictspec':
        view = petl.convert(table, {'a': up, 'b': lambda v: ('B', v)})
        conv = {0: up, 1: lambda v: ('B', v)}
    elif op == 'convert-listspec':
        view = petl.convert(table, [up, None, lambda v: ('C', v)])
        conv = {0: up, 2: lambda v: ('C', v)}
    elif op == 'convert-method':
        view = petl.convert(table, 'a', 'upper')
        conv = {0: lambda v: v.upper()}
    elif op == 'convert-method-args':
        view = petl.convert(table, {'a': ('replace', 'r', 'X'), 'b': ('replace', 'c', 'Y'), 'c': ('ljust', 6, '.')})
        conv = {0: lambda v: v.replace('r', 'X'), 1: lambda v: v.replace('c', 'Y'), 2: lambda v: v.ljust(6, '.')}
    elif op == 'convert-valuedict':
        view = petl.convert(table, 'a', {'r0c0': 'ZERO'})
        conv = {0: lambda v: 'ZERO' if v == 'r0c0' else v}
    elif op == 'convert-where':
        view = petl.convert(table, 'b', up, where=lambda rec: rec['a'] == 'r0c0')
        conv = {1: up}
    elif op == 'convert-passrow':
        view = petl.convert(table, 'b', lambda v, row: (v, row['a']), pass_row=True)
        conv = {1: 'passrow'}
    elif op == 'convertall':
        view = petl.convertall(table, up)
        conv = {0: up, 1: up, 2: up}
    elif op == 'replace':
        view = petl.replace(table, 'b', 'r1c1', 'NEW')
        conv = {1: lambda v: 'NEW' if v == 'r1c1' else v}
    elif op == 'replaceall':
        view = petl.replaceall(table, 'r0c2', 'NEW')
        f = lambda v: 'NEW' if v == 'r0c2' else v
        conv = {0: f, 1: f, 2: f}
    elif op == 'update':
        view = petl.update(table, 'c', 'K')
        conv = {2: lambda v: 'K'}
    elif op == 'format':
        view = petl.format(table, 'b', '<{}>')
        conv = {1: lambda v: '<{}>'.format(v)}
    elif op == 'interpolate':
        view = petl.interpolate(table, 'b', '[%s]')
        conv = {1: lambda v: '[%s]' % v}
    elif op == 'suffix':
        view = petl.convert(table)
        view['c'] = up
        conv = {2: up}
    else:
        raise ValueError(op)
    got = _out(view)
    exp = [tuple(hdr)]
    for ri, r in enumerate(rows):
        o = []
        for i, v in enumerate(r):
            f = conv.get(i)
            if f is None:
                o.append(v)
            elif f == 'passrow':
                o.append((v, r[0]))
            elif op == 'convert-where' and not r[0] == 'r0c0':
                o.append(v)
            else:
                o.append(f(v))
        exp.append(tuple(o))
    _eq(got, exp, op)


def fill_ops(sym, op, N):
    hdr, rows = _table(sym, N, 'abc', False, nullable=True)
    table = [hdr] + rows
    if op == 'filldown':
        fields = sym.pick('fields', [(), ('a',), ('b', 'c'), (2,)])
        missing = sym.pick('missing', [None, 'NA'])
        if missing is not None:
            rows = [[('NA' if (c is None and (i + j) % 2 == 0) else c) for j, c in enumerate(r)] for i, r in enumerate(rows)]
            table = [hdr] + rows
        got = _out(petl.filldown(table, *fields, missing=missing))
        idx = [0, 1, 2] if not fields else _resolve(hdr, list(fields))
        exp = [tuple(hdr)]
        fill = None
        for i, r in enumerate(rows):
            o = list(r)
            if i == 0:
                fill = list(r)
            else:
                for j in idx:
                    if r[j] == missing and (r[j] is None) == (missing is None):
                        o[j] = fill[j]
                    else:
                        fill[j] = r[j]
            exp.append(tuple(o))
        _eq(got, exp, op, fields, missing)
    elif op == 'fillright':
        got = _out(petl.fillright(table))
        exp = [tuple(hdr)]
        for r in rows:
            o = list(r)
            for j in range(1, len(o)):
                if o[j] is None:
                    o[j] = o[j - 1]
            exp.append(tuple(o))
        _eq(got, exp, op)
    elif op == 'fillleft':
        got = _out(petl.fillleft(table))
        exp = [tuple(hdr)]
        for r in rows:
            o = list(r)
            for j in range(len(o) - 2, -1, -1):
                if o[j] is None:
                    o[j] = o[j + 1]
            exp.append(tuple(o))
        _eq(got, exp, op)


def map_ops(sym, op, N):
    hdr, rows = _table(sym, N, 'abc', False)
    table = [hdr] + rows
    if op == 'fieldmap':
        m = OrderedDict()
        m['x'] = 'a'
        m['y'] = 'b', lambda v: ('Y', v)
        m['z'] = lambda rec: (rec['a'], rec['c'])
        m['w'] = 'c', {'r0c2': 'ZERO'}
        m['i'] = 1
        m['e'] = '{a} + {c}'
        got = _out(petl.fieldmap(table, m))
        exp = [('x', 'y', 'z', 'w', 'i', 'e')] + [
            (r[0], ('Y', r[1]), (r[0], r[2]), 'ZERO' if r[2] == 'r0c2' else r[2], r[1], r[0] + r[2]) for r in rows]
        _eq(got, exp, op)
    elif op == 'rowmap':
        got = _out(petl.rowmap(table, lambda rec: [rec['c'], rec[0], ('m', rec.b)], header=['c', 'a', 'm']))
        _eq(got, [('c', 'a', 'm')] + [(r[2], r[0], ('m', r[1])) for r in rows], op)
    elif op == 'rowmapmany':
        got = _out(petl.rowmapmany(table, lambda rec: [[rec['a'], j] for j in range(2)], header=['a', 'j']))
        exp = [('a', 'j')]
        for r in rows:
            exp += [(r[0], 0), (r[0], 1)]
        _eq(got, exp, op)
    elif op == 'sub':
        cnt = sym.pick('count', [0, 1])
        got = _out(petl.sub(table, 'b', 'c', 'X', count=cnt))
        import re
        _eq(got, [tuple(hdr)] + [(r[0], re.sub('c', 'X', r[1], count=cnt), r[2]) for r in rows], op)


def accessor_ops(sym, op, N, ragged):
    hdr, rows = _table(sym, N, 'abc', ragged)
    table = [hdr] + rows
    missing = sym.pick('missing', [None, 'M'])
    if op == 'values':
        f = sym.pick('field', ['a', 'c', 1])
        i = _resolve(hdr, [f])[0]
        got = list(petl.values(table, f, missing=missing))
        check(got == [_get(r, i, missing) for r in rows], op, got)
        got2 = list(petl.values(table, 'a', 'c', missing=missing))
        check(got2 == [(_get(r, 0, missing), _get(r, 2, missing)) for r in rows], op + ' multi', got2)
    elif op == 'data':
        got = [tuple(r) for r in petl.data(table)]
        check(got == [tuple(r) for r in rows], op, got)
        k = sym.choice('k', 3)
        got = [tuple(r) for r in petl.data(table, k)]
        check(got == [tuple(r) for r in rows[:k]], op + ' sliced', got)
    elif op == 'dicts':
        got = list(petl.dicts(table, missing=missing))
        exp = [dict((f, _get(r, j, missing)) for j, f in enumerate(hdr)) for r in rows]
        check(got == exp, op, got, exp)
    elif op == 'records':
        got = list(petl.records(table, missing=missing))
        check(len(got) == len(rows), op + ' count')
        for rec, r in zip(got, rows):
            check(tuple(rec) == tuple(r), op + ': record is not the row', rec, r)
            for j, f in enumerate(hdr):
                check(rec[f] == _get(r, j, missing) and getattr(rec, f) == _get(r, j, missing), op + ' field access', rec, f)
    elif op == 'namedtuples':
        got = list(petl.namedtuples(table, missing=missing))
        check(len(got) == len(rows), op + ' count')
        for nt, r in zip(got, rows):
            check(tuple(nt) == tuple(_sq(r, 3, missing)), op + ': padded/trimmed to the header', nt, r)
    elif op == 'columns':
        got = petl.columns(table, missing=missing)
        exp = dict((f, [_get(r, j, missing) for r in rows]) for j, f in enumerate(hdr))
        check(dict(got) == exp and list(got.keys()) == hdr, op, dict(got), exp)
    elif op == 'header':
        check(tuple(petl.header(table)) == tuple(hdr) and tuple(petl.fieldnames(table)) == tuple(hdr), op)
        check(petl.nrows(table) == len(rows), 'nrows')


# --------------------------------------------------------------------------
BOUNDS = {
    'quick': 'tables of n in [0,2] rows (symbolic) with 3 fields; every row length in 1..4 (symbolic, ragged) where the function '
             'documents padding/trimming; headers distinct / with a duplicate name / numeric-looking; field selectors drawn '
             'symbolically from names, indices 0..3, -1 and unknown names (one or two of them); insertion indices incl. negative and '
             'out of range; missing in {None, marker}',
    'thorough': 'n in [0,3]',
}
OUTSIDE = ('negative field indices in cut/cutout (undocumented: only "no other exception than a selection error" is checked); fills on '
           'ragged rows; convert with user converters that raise (C19)')
STUBS = []
ASSUMPTIONS = ['cells are distinct concrete markers (the functions move cells, they do not compare them); None cells by symbolic flag for fills']
RULE = 'Jobs case-split (function, header shape, ragged); row count, row lengths, selectors, indices, flags symbolic.'


def jobs(tier):
    q = tier == 'quick'
    N = 2 if q else 3
    B = 150 if q else 1200
    out = []

    def add(func, name, **p):
        out.append(dict(name=name, func=func, params=p, budget=B))
    for op in ('cut', 'cut-list', 'cutout'):
        for hk in ('abc', 'dup', 'num'):
            add('select_ops', '%s/%s/ragged/2sel' % (op, hk), op=op, N=1, hk=hk, ragged=True)
            add('select_ops', '%s/%s/ragged/1sel' % (op, hk), op=op, N=N, hk=hk, ragged=True, two=False)
    for hk in ('abc', 'num', 'dup'):
        add('move_op', 'movefield/%s' % hk, N=N, hk=hk, ragged=True)
    for op in ('cat', 'cat-header', 'stack', 'annex'):
        add('concat_ops', '%s/ragged' % op, op=op, N=1 if q else 2, ragged=True)
        add('concat_ops', '%s/rect' % op, op=op, N=N, ragged=False)
    for op in ('addfield-const', 'addfield-fn', 'addfields', 'addcolumn', 'addrownumbers', 'addfieldusingcontext'):
        add('add_ops', '%s/ragged' % op, op=op, N=N, ragged=True)
    for op in ('rename', 'setheader', 'extendheader', 'pushheader', 'prefixheader', 'suffixheader', 'sortheader'):
        for hk in ('abc', 'dup', 'num'):
            if op == 'sortheader' and hk == 'dup':
                continue
            add('header_ops', '%s/%s' % (op, hk), op=op, N=N, hk=hk, ragged=True)
    for op in ('convert-fn', 'convert-multi', 'convert-dictspec', 'convert-listspec', 'convert-method', 'convert-method-args',
               'convert-valuedict', 'convert-where', 'convert-passrow', 'convertall', 'replace', 'replaceall', 'update',
               'format', 'interpolate', 'suffix'):
        add('convert_ops', '%s' % op, op=op, N=N, ragged=op not in ('convert-where', 'convert-passrow'))
    for op in ('filldown', 'fillright', 'fillleft'):
        add('fill_ops', op, op=op, N=N)
    for op in ('fieldmap', 'rowmap', 'rowmapmany', 'sub'):
        add('map_ops', op, op=op, N=N)
    for op in ('values', 'data', 'dicts', 'records', 'namedtuples', 'columns', 'header'):
        add('accessor_ops', op, op=op, N=N, ragged=True)
    return out
