"""C03 - transformations never modify their inputs or rows already
delivered."""
import petl

from engine.ref import same_cell, scopy
from engine.shim import check
from engine.stubs import pickle_stub, private_tempdir, default_tempdir, clock_stub

from . import catalogue
from .catalogue import ALL_BY_NAME, HDR

PROPERTY = 'C03'

BASE = [[2, 20, 'z,w'], [9, 10, 'x,y'], [2, 21, 'u,v']]      # key 9 has no partner in the second input


def _fresh_other():
    return ([['a', 'z'], [1, 'p'], [2, 'q'], [2, 'r'], [3, 's']],
            [list(HDR), [2, 20, 'z,w'], [5, 50, 'm,n']])


def _snap(tables):
    return [(t, list(t), scopy(t)) for t in tables]


def _unchanged(snaps, what):
    for (t, rowobjs, copy) in snaps:
        check(len(t) == len(copy), what + ': source container changed length', len(t), len(copy))
        for i in range(len(copy)):
            check(t[i] is rowobjs[i], what + ': a source row object was replaced', i)
            check(len(t[i]) == len(copy[i]), what + ': a source row changed length', i, t[i], copy[i])
            for a, b in zip(t[i], copy[i]):
                check(a is b or same_cell(a, b), what + ': a source cell was modified', i, t[i], copy[i])


def _freeze(r):
    if isinstance(r, dict):
        return dict(r)
    if isinstance(r, (list, tuple)):
        return tuple(scopy(x) if isinstance(x, (list, dict)) else x for x in r)
    return r


def _still(r, frozen):
    if isinstance(r, dict):
        return r == frozen
    if isinstance(r, (list, tuple)):
        if len(r) != len(frozen):
            return False
        return all((a is b) or a == b for a, b in zip(r, frozen))
    return r == frozen


def immut(sym, name, R, ragged):
    make = ALL_BY_NAME[name][1]
    kind = ALL_BY_NAME[name][2].get('kind', 'table')
    rows = [list(r) for r in BASE[:R]]
    if ragged:
        for i in range(R):
            ln = sym.choice('len%d' % i, 4) + 1     # 1..4 cells (header has 3)
            rows[i] = (rows[i] + ['extra'])[:ln]
    src = [list(HDR)] + rows
    other, same = _fresh_other()
    saved = (catalogue.OTHER, catalogue.SAME)
    catalogue.OTHER, catalogue.SAME = other, same
    try:
        snaps = _snap([src, other, same])
        kept = []
        with pickle_stub(), private_tempdir() as td, default_tempdir(td), clock_stub([1]):
            try:
                res = make(src)
            except Exception:
                res = None          # eager operators may reject ragged rows; only modification matters here
            if res is None or kind in ('value', 'noraise', 'dict'):
                views = []
            elif kind == 'pair':
                views = list(res)
            else:
                views = [res]
            k = sym.pick('k', [0, 1, 2, R + 2])       # rows consumed before the first iterator is abandoned
            for v in views:
                for p in range(2):                    # an abandoned partial pass, then a full pass
                    try:
                        it = iter(v)
                        for _ in range(k if p == 0 else R + 50):
                            r = next(it)
                            kept.append((r, _freeze(r)))
                    except StopIteration:
                        pass
                    except Exception:
                        # operators may reject ragged rows; what matters here is that nothing was modified
                        pass
                    it = None
            _unchanged(snaps, name)
            for (r, frozen) in kept:
                check(_still(r, frozen), name + ': a row already delivered was altered by continuing the iteration', r, frozen)
    finally:
        catalogue.OTHER, catalogue.SAME = saved


def _deep(x):
    if isinstance(x, dict):
        return dict((k, _deep(v)) for k, v in x.items())
    if isinstance(x, list):
        return [_deep(v) for v in x]
    if isinstance(x, tuple):
        return tuple(_deep(v) for v in x)
    return x


MUTABLE_OPS = {
    'unpackdict-keys': lambda t: petl.unpackdict(t, 'd', keys=['p', 'q', 'zz']),
    'unpackdict-sample': lambda t: petl.unpackdict(t, 'd'),
    'unpackdict-include': lambda t: petl.unpackdict(t, 'd', keys=['q'], includeoriginal=True, missing='M'),
    'unpack': lambda t: petl.unpack(t, 'l', ['x', 'y', 'z'], missing='M'),
    'unpack-include': lambda t: petl.unpack(t, 'l', 2, include_original=True),
    'dicts': lambda t: petl.dicts(t),
    'convert-dict-cell': lambda t: petl.convert(t, 'd', lambda d: sorted(d)),
    'addfield-from-list': lambda t: petl.addfield(t, 'n', lambda r: len(r['l'])),
    'flatten': lambda t: petl.flatten(t),
    'cat': lambda t: petl.cat(t, t),
    'sort': lambda t: petl.sort(t, 'a'),
    'selectcontains': lambda t: petl.selectcontains(t, 'l', 1),
    'fieldmap': lambda t: petl.fieldmap(t, {'x': ('d', lambda d: d.get('p'))}),
    'melt': lambda t: petl.melt(t, 'a'),
}


def immut_cells(sym, name):
    """Source cells that are dicts / lists are left as they were."""
    make = MUTABLE_OPS[name]
    src = [['a', 'd', 'l'], [1, {'p': 1}, [1, 2]], [2, {'q': 2}, []], [3, {}, [3, 4, 5, 6]]]
    before = _deep(src)
    cellobjs = [[c for c in r] for r in src]
    k = sym.pick('k', [0, 1, 2, 9])
    with pickle_stub(), private_tempdir() as td, default_tempdir(td):
        v = make(src)
        for p in range(2):
            try:
                it = iter(v)
                for _ in range(k if p == 0 else 99):
                    next(it)
            except StopIteration:
                pass
            it = None
    check(_deep(src) == before, name + ': a mutable cell (or row) of the source was modified', src, before)
    for r, objs in zip(src, cellobjs):
        for c, o in zip(r, objs):
            check(c is o, name + ': a source cell object was replaced', r)


# --------------------------------------------------------------------------
BOUNDS = {
    'quick': 'every catalogue entry (unary and multi-input) over a list-of-lists source of 2 data rows with '
             'rectangular and ragged variants (each row 1..4 cells for a 3-field header); a partial pass abandoned after a symbolic number of rows '
             '(0, 1, 2, all) followed by a full pass; the fixed second inputs are lists of lists too and are checked',
    'thorough': '3 data rows',
}
OUTSIDE = 'sources whose cells are themselves mutable containers modified by user-supplied functions; more rows than the bound'
STUBS = ['PickleStub', 'private temp dir', 'ClockStub']
ASSUMPTIONS = ['an operator that rejects a ragged row by raising is not a violation of this property (only modification is)']
RULE = 'One job per catalogue entry and shape; row lengths, rows consumed and pass count symbolic.'


def jobs(tier):
    q = tier == 'quick'
    R = 2 if q else 3
    out = []
    for (name, make, opts) in catalogue.ALL:
        if opts.get('kind') == 'noraise':
            continue
        for ragged in (False, True):
            out.append(dict(name='immut/%s/R=%d/ragged=%d' % (name, R, ragged), func='immut',
                            params=dict(name=name, R=R, ragged=ragged), budget=150 if q else 1200))
    for name in MUTABLE_OPS:
        out.append(dict(name='immut-cells/%s' % name, func='immut_cells', params=dict(name=name), budget=150 if q else 600))
    return out
