"""C03 - transformations never modify their inputs or rows already
delivered."""
import petl

from engine.ref import same_cell, scopy
from engine.shim import check
from engine.stubs import pickle_stub, private_tempdir, default_tempdir, clock_stub

from . import catalogue
from .catalogue import ALL_BY_NAME, HDR

PROPERTY = 'C03'

BASE = [[2, 20, 'z,w'], [1, 10, 'x,y'], [2, 21, 'u,v']]


def _fresh_other():
    return ([['a', 'z'], [1, 'p'], [2, 'q'], [2, 'r'], [3, 's']],
            [list(HDR), [2, 20, 'z,w'], [5, 50, 'm,n']])


def _snap(tables):
    return [(t, list(t), scopy(t)) for t in tables]


def _unchanged(snaps, what):
    for (t, rowobjs, copy) in snaps:
        check(len(t) == len(copy), what + ': source container changed length', len(t), len(copy))
        for i in range(len(copy)):
            check(t[i] is rowobjs[i], what + ': a source row object was replaced', i)
            check(len(t[i]) == len(copy[i]), what + ': a source row changed length', i, t[i], copy[i])
            for a, b in zip(t[i], copy[i]):
                check(a is b or same_cell(a, b), what + ': a source cell was modified', i, t[i], copy[i])


def _freeze(r):
    if isinstance(r, dict):
        return dict(r)
    if isinstance(r, (list, tuple)):
        return tuple(scopy(x) if isinstance(x, (list, dict)) else x for x in r)
    return r


def _still(r, frozen):
    if isinstance(r, dict):
        return r == frozen
    if isinstance(r, (list, tuple)):
        if len(r) != len(frozen):
            return False
        return all((a is b) or a == b for a, b in zip(r, frozen))
    return r == frozen


def immut(sym, name, R, ragged):
    make = ALL_BY_NAME[name][1]
    kind = ALL_BY_NAME[name][2].get('kind', 'table')
    rows = [list(r) for r in BASE[:R]]
    if ragged:
        for i in range(R):
            ln = sym.choice('len%d' % i, 4) + 1     # 1..4 cells (header has 3)
            rows[i] = (rows[i] + ['extra'])[:ln]
    src = [list(HDR)] + rows
    other, same = _fresh_other()
    saved = (catalogue.OTHER, catalogue.SAME)
    catalogue.OTHER, catalogue.SAME = other, same
    try:
        snaps = _snap([src, other, same])
        kept = []
        with pickle_stub(), private_tempdir() as td, default_tempdir(td), clock_stub([1]):
            try:
                res = make(src)
            except Exception:
                res = None          # eager operators may reject ragged rows; only modification matters here
            if res is None or kind in ('value', 'noraise', 'dict'):
                views = []
            elif kind == 'pair':
                views = list(res)
            else:
                views = [res]
            k = sym.pick('k', [0, 1, 2, R + 2])       # rows consumed before the first iterator is abandoned
            for v in views:
                for p in range(2):                    # an abandoned partial pass, then a full pass
                    try:
                        it = iter(v)
                        for _ in range(k if p == 0 else R + 50):
                            r = next(it)
                            kept.append((r, _freeze(r)))
                    except StopIteration:
                        pass
                    except Exception:
                        # operators may reject ragged rows; what matters here is that nothing was modified
                        pass
                    it = None
            _unchanged(snaps, name)
            for (r, frozen) in kept:
                check(_still(r, frozen), name + ': a row already delivered was altered by continuing the iteration', r, frozen)
    finally:
        catalogue.OTHER, catalogue.SAME = saved


# --------------------------------------------------------------------------
BOUNDS = {
    'quick': 'every catalogue entry (unary and multi-input) over a list-of-lists source of 2 data rows with '
             'rectangular and ragged variants (each row 1..4 cells for a 3-field header); a partial pass abandoned after a symbolic number of rows '
             '(0, 1, 2, all) followed by a full pass; the fixed second inputs are lists of lists too and are checked',
    'thorough': '3 data rows',
}
OUTSIDE = 'sources whose cells are themselves mutable containers modified by user-supplied functions; more rows than the bound'
STUBS = ['PickleStub', 'private temp dir', 'ClockStub']
ASSUMPTIONS = ['an operator that rejects a ragged row by raising is not a violation of this property (only modification is)']
RULE = 'One job per catalogue entry and shape; row lengths, rows consumed and pass count symbolic.'


def jobs(tier):
    q = tier == 'quick'
    R = 2 if q else 3
    out = []
    for (name, make, opts) in catalogue.ALL:
        if opts.get('kind') == 'noraise':
            continue
        for ragged in (False, True):
            out.append(dict(name='immut/%s/R=%d/ragged=%d' % (name, R, ragged), func='immut',
                            params=dict(name=name, R=R, ragged=ragged), budget=150 if q else 1200))
    return out
