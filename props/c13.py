"""C13 - selections return exactly the satisfying rows; complement is the
exact rest; positional selectors behave as itertools.islice."""
import itertools

import petl

from engine.ref import cells_eq, ref_lt, row_eq
from engine.shim import assume, check

from .common import cell, nrows

PROPERTY = 'C13'


def _table(sym, N, dom, ragged):
    """rows [tag, k]; ragged: a row may be short (no k) or long (extra cell)."""
    n = nrows(sym, 'n', N)
    rows, ks = [], []
    for i in range(n):
        k = cell(sym, 'r%d.k' % i, dom)
        row = ['T%d' % i, k]
        if ragged:
            ln = sym.choice('r%d.len' % i, 3) + 1
            row = (row + ['X'])[:ln]
        rows.append(row)
        ks.append(row[1] if len(row) > 1 else None)      # missing read as None by default
    return [['t', 'k']] + rows, rows, ks


def _tags(view):
    out = [tuple(r) for r in view]
    check(len(out) >= 1 and out[0] == ('t', 'k'), 'header', out[:1])
    return [r[0] for r in out[1:]], out[1:]


def _le(a, b):
    return not ref_lt(b, a)


def comparison(sym, sel, N, dom, ragged):
    table, rows, ks = _table(sym, N, dom, ragged)
    n = len(rows)
    v = cell(sym, 'v', dom)
    w = cell(sym, 'w', dom)
    preds = {
        'selecteq': lambda k: cells_eq(k, v), 'selectne': lambda k: not cells_eq(k, v),
        'selectlt': lambda k: ref_lt(k, v), 'selectle': lambda k: _le(k, v),
        'selectgt': lambda k: ref_lt(v, k), 'selectge': lambda k: _le(v, k),
        'selectrangeopenleft': lambda k: _le(v, k) and ref_lt(k, w),
        'selectrangeopenright': lambda k: ref_lt(v, k) and _le(k, w),
        'selectrangeopen': lambda k: _le(v, k) and _le(k, w),
        'selectrangeclosed': lambda k: ref_lt(v, k) and ref_lt(k, w),
        'selectin': lambda k: cells_eq(k, v) or cells_eq(k, w),
        'selectnotin': lambda k: not (cells_eq(k, v) or cells_eq(k, w)),
        'selectnone': lambda k: k is None, 'selectnotnone': lambda k: k is not None,
        'selecttrue': lambda k: bool(k), 'selectfalse': lambda k: not bool(k),
        'selectis': lambda k: k is None, 'selectisnot': lambda k: k is not None,
        'selectisinstance-int': lambda k: isinstance(k, int),
        'selectisinstance-str': lambda k: isinstance(k, str),
    }
    pred = preds[sel]
    fn = getattr(petl, sel.split('-')[0])
    if sel.startswith('selectrange'):
        args = (v, w)
    elif sel in ('selectin', 'selectnotin'):
        args = ([v, w],)
    elif sel in ('selectnone', 'selectnotnone', 'selecttrue', 'selectfalse'):
        args = ()
    elif sel in ('selectis', 'selectisnot'):
        args = (None,)
    elif sel == 'selectisinstance-int':
        args = (int,)
    elif sel == 'selectisinstance-str':
        args = (str,)
    else:
        args = (v,)
    exp = [i for i in range(n) if pred(ks[i])]
    got, grow = _tags(fn(table, 'k', *args))
    check(got == ['T%d' % i for i in exp], sel + ': selected rows', ks, v, w, got)
    for r in grow:
        i = int(r[0][1:])
        check(row_eq(r, rows[i]), 'row changed', r, rows[i])
    gotc, _ = _tags(fn(table, 'k', *args, complement=True))
    check(gotc == ['T%d' % i for i in range(n) if i not in exp], sel + ': complement is not the exact rest', ks, v, w, gotc)


def generic(sym, form, N, dom, ragged, miss):
    """select with a field predicate / row predicate / expression string,
    complement, biselect, facet; missing cells read as `missing`."""
    table, rows, ks0 = _table(sym, N, dom, ragged)
    n = len(rows)
    missing = None if miss == 'none' else 'MISSING'
    ks = [r[1] if len(r) > 1 else missing for r in rows]
    v = cell(sym, 'v', dom)
    if form == 'field':
        mk = lambda **kw: petl.select(table, 'k', lambda x: x == v, missing=missing, **kw)
        pred = lambda k: cells_eq(k, v) if k != 'MISSING' else False
    elif form == 'row':
        mk = lambda **kw: petl.select(table, lambda rec: rec['k'] == v, missing=missing, **kw)
        pred = lambda k: cells_eq(k, v) if k != 'MISSING' else False
    elif form == 'fieldmissing':
        mk = lambda **kw: petl.select(table, 'k', lambda x: x == 'MISSING' or x is None, missing=missing, **kw)
        pred = lambda k: k is None or k == 'MISSING'
    elif form == 'rowmissing':
        mk = lambda **kw: petl.select(table, lambda rec: rec['k'] == 'MISSING' or rec['k'] is None, missing=missing, **kw)
        pred = lambda k: k is None or k == 'MISSING'
    elif form == 'fieldtruthy':
        # a predicate that returns its argument: non-bool truthiness ('' / 0 / None are false)
        mk = lambda **kw: petl.select(table, 'k', lambda x: x, missing=missing, **kw)
        pred = lambda k: bool(k)
    elif form == 'rowtruthy':
        mk = lambda **kw: petl.select(table, lambda rec: rec['k'], missing=missing, **kw)
        pred = lambda k: bool(k)
    elif form == 'expr':
        mk = lambda **kw: petl.select(table, "{k} is None", missing=missing, **kw)
        pred = lambda k: k is None
    else:
        raise ValueError(form)
    exp = ['T%d' % i for i in range(n) if pred(ks[i])]
    rest = ['T%d' % i for i in range(n) if not pred(ks[i])]
    got, _ = _tags(mk())
    check(got == exp, 'select: selected rows', ks, v, got, exp)
    gotc, _ = _tags(mk(complement=True))
    check(gotc == rest, 'select complement is not the exact rest', ks, v, gotc)
    if form in ('field', 'row', 'fieldtruthy', 'rowtruthy'):
        args = {'field': ('k', lambda x: x == v), 'row': (lambda rec: rec['k'] == v,), 'fieldtruthy': ('k', lambda x: x),
                'rowtruthy': (lambda rec: rec['k'],)}[form]
        t1, t2 = petl.biselect(table, *args, missing=missing)
        g1, _ = _tags(t1)
        g2, _ = _tags(t2)
        check(g1 == exp and g2 == rest, 'biselect does not partition the input', g1, g2)


def membership_op(sym, N):
    """selectin / selectnotin follow the `in` operator of the given container, whatever it is."""
    table, rows, ks = _table(sym, N, 'S', False)
    n = len(rows)
    form = sym.choice('container', 3)
    if form == 0:
        cont = sym.pick('str', ['ab', 'xab', ''])           # substring membership
        inn = lambda k: k in cont
    elif form == 1:
        cont = [['a'], []]                                   # unhashable members
        rows2 = [[r[0], [r[1]] if len(r[1]) else []] for r in rows]
        table = [['t', 'k']] + rows2
        ks = [r[1] for r in rows2]
        inn = lambda k: any(k == c for c in cont)
    else:
        cont = {'a': 1, 'b': 2}                              # mapping: membership of keys
        inn = lambda k: k in cont
    got, _ = _tags(petl.selectin(table, 'k', cont))
    check(got == ['T%d' % i for i in range(n) if inn(ks[i])], 'selectin', ks, cont, got)
    gotn, _ = _tags(petl.selectnotin(table, 'k', cont))
    check(gotn == ['T%d' % i for i in range(n) if not inn(ks[i])], 'selectnotin is not the exact rest', ks, cont, gotn)


def chained_op(sym, N):
    """select(select(t, rowpred, missing=m1), field, pred, missing=m2): short rows read as m2 in the outer selection"""
    table, rows, ks0 = _table(sym, N, 'Od2', True)
    n = len(rows)
    inner = petl.select(table, lambda rec: True, missing='m1')
    got, _ = _tags(petl.selectnone(inner, 't') if False else petl.select(inner, 'k', lambda v: v is None, missing=None))
    exp = ['T%d' % i for i in range(n) if (rows[i][1] if len(rows[i]) > 1 else None) is None]
    check(got == exp, 'chained selections: the outer selection must see missing cells as ITS missing', rows, got, exp)
    got2, _ = _tags(petl.selectnone(inner, 'k'))
    check(got2 == exp, 'selectnone after a row-form select', rows, got2, exp)


def facet_op(sym, N, dom):
    table, rows, ks = _table(sym, N, dom, False)
    n = len(rows)
    f = petl.facet(table, 'k')
    groups = []
    for i in range(n):
        for g in groups:
            if cells_eq(ks[g[0]], ks[i]):
                g.append(i)
                break
        else:
            groups.append([i])
    check(len(f) == len(groups), 'facet: number of tables', list(f), groups)
    seen = []
    for g in groups:
        k = ks[g[0]]
        check(k in f, 'facet key missing', k)
        got, _ = _tags(f[k])
        check(got == ['T%d' % i for i in g], 'facet table rows', k, got, g)
        seen.extend(got)
    check(sorted(seen) == sorted('T%d' % i for i in range(n)), 'facet tables do not partition the input')


def contains_op(sym, N):
    table, rows, ks = _table(sym, N, 'S', False)
    v = sym.str('v', 1)
    got, _ = _tags(petl.selectcontains(table, 'k', v))
    check(got == ['T%d' % i for i in range(len(rows)) if v in ks[i]], 'selectcontains', ks, v, got)


def rowlen_op(sym, N):
    table, rows, ks = _table(sym, N, 'Od2', True)
    ln = sym.choice('len', 4)
    got, _ = _tags(petl.rowlenselect(table, ln))
    check(got == ['T%d' % i for i, r in enumerate(rows) if len(r) == ln], 'rowlenselect', rows, ln, got)
    gotc, _ = _tags(petl.rowlenselect(table, ln, complement=True))
    check(gotc == ['T%d' % i for i, r in enumerate(rows) if len(r) != ln], 'rowlenselect complement', rows, ln, gotc)


ALPHA = ['a', 'b', '.', '1']


def search_op(sym, N, fieldform):
    """search / searchcomplement partition the input (concrete patterns; cells
    over a small alphabet: the regex engine is C code, values realise)."""
    n = nrows(sym, 'n', N)
    rows = [['T%d' % i, sym.enumstr('r%d.k' % i, 2, ALPHA)] for i in range(n)]
    table = [['t', 'k']] + rows
    pat = sym.pick('pattern', ['a', '^b', r'\.', 'a.', '[0-9]$', 'T0'])
    import re
    prog = re.compile(pat)
    if fieldform:
        hit = lambda r: bool(prog.search(r[1]))
        t1 = petl.search(table, 'k', pat)
        t2 = petl.searchcomplement(table, 'k', pat)
    else:
        hit = lambda r: bool(prog.search(r[0])) or bool(prog.search(r[1]))
        t1 = petl.search(table, pat)
        t2 = petl.searchcomplement(table, pat)
    g1, _ = _tags(t1)
    g2, _ = _tags(t2)
    check(g1 == [r[0] for r in rows if hit(r)], 'search', rows, pat, g1)
    check(g2 == [r[0] for r in rows if not hit(r)], 'searchcomplement is not the exact rest', rows, pat, g2)


def slice_op(sym, N, fn):
    """rowslice / head / tail / skip against itertools.islice."""
    n = nrows(sym, 'n', N)
    rows = [['T%d' % i, i] for i in range(n)]
    table = [['t', 'k']] + rows

    def opt(name, hi):
        c = sym.choice(name, hi + 2)
        return None if c == hi + 1 else c
    if fn == 'rowslice':
        nargs = sym.choice('nargs', 4)
        if nargs == 0:
            args = ()
        elif nargs == 1:
            args = (opt('stop', N + 1),)
        elif nargs == 2:
            args = (opt('start', N + 1), opt('stop', N + 1))
        else:
            step = sym.choice('step', 4)
            args = (opt('start', N + 1), opt('stop', N + 1), None if step == 0 else step)
        got, _ = _tags(petl.rowslice(table, *args))
        exp = [r[0] for r in itertools.islice(rows, *(args or (None,)))]
        check(got == exp, 'rowslice differs from islice', n, args, got, exp)
    elif fn == 'head':
        k = sym.choice('k', N + 2)
        got, _ = _tags(petl.head(table, k))
        check(got == [r[0] for r in rows[:k]], 'head', n, k, got)
    elif fn == 'tail':
        k = sym.choice('k', N + 2)
        got, _ = _tags(petl.tail(table, k))
        check(got == ([r[0] for r in rows[-k:]] if k > 0 else []), 'tail', n, k, got)
    elif fn == 'skip':
        k = sym.choice('k', N + 2)
        got = [tuple(r) for r in petl.skip(table, k)]
        exp = [tuple(r) for r in itertools.islice(table, k, None)]
        check(got == exp, 'skip', n, k, got, exp)


# --------------------------------------------------------------------------
BOUNDS = {
    'quick': 'n in [0,2] rows (symbolic) with cells and reference values None|int|str(len<=1) (n<=3 for None|int); ragged rows '
             '(short and long); facet over small domains; search with 6 concrete patterns over strings of length <= 2 over '
             '{a,b,.,1}; slice arguments start/stop in {None,0..n+1}, step in {None,1,2,3} over n<=3 rows; membership in str / '
             'list-of-lists / mapping containers; predicates returning non-bool truthiness; a row-form selection feeding a field-form '
             'one; cross-type representative cells',
    'thorough': 'n in [0,3] mixed, [0,4] None|int',
}
OUTSIDE = 'selectcontains on non-container cells; regex patterns beyond the listed ones (the regex engine is C code: values realise); negative slice arguments (islice rejects them)'
STUBS = []
ASSUMPTIONS = ['comparison selectors take no `missing` argument: missing cells are read as None (their default)']
RULE = 'Jobs case-split (selector, domain, ragged); rows, reference values and slice arguments symbolic.'

SELS = ['selecteq', 'selectne', 'selectlt', 'selectle', 'selectgt', 'selectge', 'selectrangeopenleft',
        'selectrangeopenright', 'selectrangeopen', 'selectrangeclosed', 'selectin', 'selectnotin', 'selectnone',
        'selectnotnone', 'selecttrue', 'selectfalse', 'selectis', 'selectisnot', 'selectisinstance-int',
        'selectisinstance-str']


def jobs(tier):
    q = tier == 'quick'
    B = 150 if q else 1200
    out = []
    for sel in SELS:
        rng = sel.startswith('selectrange') or sel in ('selectin', 'selectnotin')
        out.append(dict(name='%s/M/n<=%d' % (sel, 2 if q or rng else 3), func='comparison',
                        params=dict(sel=sel, N=2 if q or rng else 3, dom='M', ragged=False), budget=B))
        if sel in ('selecteq', 'selectlt', 'selectle', 'selectgt', 'selectge', 'selectrangeopenleft', 'selectin') or not q:
            out.append(dict(name='%s/X/n<=%d' % (sel, 1 if q else 2), func='comparison',
                            params=dict(sel=sel, N=1 if q else 2, dom='X', ragged=False), budget=B))
        out.append(dict(name='%s/O/ragged/n<=%d' % (sel, 2 if q else 3), func='comparison',
                        params=dict(sel=sel, N=2 if q else 3, dom='O', ragged=True), budget=B))
    for form in ('field', 'row', 'fieldmissing', 'rowmissing', 'expr', 'fieldtruthy', 'rowtruthy'):
        for miss in ('none', 'tag'):
            out.append(dict(name='select-%s/M/ragged/missing=%s' % (form, miss), func='generic',
                            params=dict(form=form, N=2 if q else 3, dom='M' if form in ('field', 'row') else 'O',
                                        ragged=True, miss=miss), budget=B))
    for dom in ('Od2', 'Md2'):
        out.append(dict(name='facet/%s' % dom, func='facet_op', params=dict(N=3 if q else 4, dom=dom), budget=B))
    out.append(dict(name='chained-selects', func='chained_op', params=dict(N=2 if q else 3), budget=B))
    out.append(dict(name='selectin-containers', func='membership_op', params=dict(N=2 if q else 3), budget=B))
    out.append(dict(name='selectcontains', func='contains_op', params=dict(N=2 if q else 3), budget=B))
    out.append(dict(name='rowlenselect', func='rowlen_op', params=dict(N=2 if q else 3), budget=B))
    for ff in (True, False):
        out.append(dict(name='search/field=%d' % ff, func='search_op', params=dict(N=2, fieldform=ff), budget=B))
    for fn in ('rowslice', 'head', 'tail', 'skip'):
        out.append(dict(name='slice-%s' % fn, func='slice_op', params=dict(N=3 if q else 4, fn=fn), budget=B))
    return out
