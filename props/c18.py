"""C18 - temporary files live exactly as long as something can still read
them.  Real NamedTemporaryFile / unlink in a private directory; the history of
create / advance / release operations is symbolic."""
import gc
import os

import petl

from engine.shim import assume, check
from engine.stubs import (FailingSource, SourceFailure, default_tempdir, pickle_stub, private_tempdir)

PROPERTY = 'C18'

HDR = ['a', 'b']
ROWS = [[3, 'r0'], [1, 'r1'], [2, 'r2'], [1, 'r3'], [0, 'r4']]
OTHER = [['a', 'z'], [1, 'p'], [2, 'q'], [1, 'r']]


def _mk(op, src, bs, cache, td):
    if op == 'sort':
        return petl.sort(src, 'a', buffersize=bs, cache=cache, tempdir=td)
    if op == 'sort-reverse':
        return petl.sort(src, 'a', reverse=True, buffersize=bs, cache=cache, tempdir=td)
    if op == 'join':
        return petl.join(src, OTHER, key='a', buffersize=bs, cache=cache, tempdir=td)
    if op == 'distinct':
        return petl.distinct(src, 'a', buffersize=bs, cache=cache, tempdir=td)
    if op == 'aggregate':
        return petl.aggregate(src, 'a', len, buffersize=bs, cache=cache, tempdir=td)
    if op == 'complement':
        return petl.complement(src, [HDR, [1, 'r1']], buffersize=bs, cache=cache, tempdir=td)
    if op == 'mergesort':
        return petl.mergesort(src, [HDR, [2, 'x']], key='a', buffersize=bs, cache=cache, tempdir=td)
    raise ValueError(op)


def history(sym, op, n, bs, cache, H, nslots, fail=False, prefix=()):
    rows = [list(r) for r in ROWS[:n]]
    with pickle_stub(), private_tempdir() as td, default_tempdir(td):
        # reference result from an independent view (its files are released before the history starts)
        ref = [tuple(r) for r in _mk(op, [HDR] + rows, None, False, td)]
        gc.collect()
        check(os.listdir(td) == [], 'setup: in-memory reference left files', os.listdir(td))
        fail_at = None
        if fail:
            fail_at = sym.choice('fail_at', n + 2)        # header, each row, exhaustion
        src = FailingSource([HDR] + rows, fail_at) if fail else [HDR] + rows
        view = _mk(op, src, bs, cache, td)
        its = [None] * nslots
        got = [[] for _ in range(nslots)]
        done = [False] * nslots
        used = [False] * nslots
        trace = []
        for step in range(H):
            # the first len(prefix) actions are fixed by the job (case split of the history space)
            act = prefix[step] if step < len(prefix) else sym.choice('h%d' % step, 3 * nslots + 1)
            if act == 3 * nslots:
                assume(view is not None)            # no-ops are pruned, not passed
                trace.append('release-view')
                view = None
                continue
            i, kind = act % nslots, act // nslots
            # symmetry: slot i+1 is only used once slot i has been used
            assume(i == 0 or used[i - 1] or used[i])
            if kind == 1:
                assume(its[i] is not None)
                trace.append('release%d' % i)
                its[i] = None
                got[i] = []
                done[i] = False
                continue
            if kind == 2:
                # create an iterator without advancing it
                assume(its[i] is None and view is not None)
                trace.append('create%d' % i)
                its[i] = iter(view)
                used[i] = True
                got[i] = []
                done[i] = False
                continue
            assume(not done[i])
            trace.append('next%d' % i)
            if its[i] is None:
                assume(view is not None)            # nothing to create an iterator from
                its[i] = iter(view)
                used[i] = True
                got[i] = []
                done[i] = False
            try:
                r = next(its[i])
            except StopIteration:
                done[i] = True
                check(len(got[i]) == len(ref), 'iterator ended early', trace, got[i], ref)
                continue
            except SourceFailure:
                check(fail, 'unexpected source failure')
                its[i] = None                       # the failed iterator is dropped
                got[i] = []
                continue
            k = len(got[i])
            check(k < len(ref) and tuple(r) == ref[k],
                  'a live iterator (possibly outliving its view / served from the file cache) yields a wrong row',
                  trace, i, k, tuple(r), ref)
            got[i].append(tuple(r))
        # a later pass served from the cache (if the view is still there) is complete and correct
        if view is not None and not fail:
            later = [tuple(r) for r in view]
            check(later == ref, 'later pass differs', trace, later, ref)
        if view is not None and fail:
            # after a failed pass a later pass either fails again or is complete and correct - never a partial table
            try:
                later = [tuple(r) for r in view]
            except SourceFailure:
                later = None
            check(later is None or later == ref, 'a pass after a failed one yields a partial / wrong table', trace, later, ref)
        # release everything
        its = None
        view = None
        r = None
        gc.collect()
        left = os.listdir(td)
        check(left == [], 'temporary files outlive the view and all its iterators', trace, left)


def fromdicts_history(sym, n, H, nslots, fail=False):
    """Spill file behind fromdicts(generator)."""
    rows = [list(r) for r in ROWS[:n]]
    with pickle_stub(), private_tempdir() as td, default_tempdir(td):
        ref = [tuple(HDR)] + [tuple(r) for r in rows]
        fail_at = sym.choice('fail_at', n + 1) if fail else None

        def gen():
            for i, r in enumerate(rows):
                if fail_at is not None and i == fail_at:
                    raise SourceFailure('gen')
                yield dict(zip(HDR, r))
            if fail_at is not None and fail_at == len(rows):
                raise SourceFailure('gen end')
        view = petl.fromdicts(gen(), header=HDR)
        its = [None] * nslots
        got = [[] for _ in range(nslots)]
        done = [False] * nslots
        used = [False] * nslots
        trace = []
        for step in range(H):
            act = sym.choice('h%d' % step, 3 * nslots + 1)
            if act == 3 * nslots:
                assume(view is not None)            # no-ops are pruned, not passed
                trace.append('release-view')
                view = None
                continue
            i, kind = act % nslots, act // nslots
            # symmetry: slot i+1 is only used once slot i has been used
            assume(i == 0 or used[i - 1] or used[i])
            if kind == 1:
                assume(its[i] is not None)
                trace.append('release%d' % i)
                its[i] = None
                got[i] = []
                done[i] = False
                continue
            if kind == 2:
                # create an iterator without advancing it
                assume(its[i] is None and view is not None)
                trace.append('create%d' % i)
                its[i] = iter(view)
                used[i] = True
                got[i] = []
                done[i] = False
                continue
            assume(not done[i])
            trace.append('next%d' % i)
            if its[i] is None:
                assume(view is not None)            # nothing to create an iterator from
                its[i] = iter(view)
                used[i] = True
                got[i] = []
                done[i] = False
            try:
                r = next(its[i])
            except StopIteration:
                done[i] = True
                if not fail:
                    check(len(got[i]) == len(ref), 'iterator ended early', trace, got[i], ref)
                continue
            except SourceFailure:
                check(fail, 'unexpected source failure')
                its[i] = None
                got[i] = []
                continue
            k = len(got[i])
            check(k < len(ref) and tuple(r) == ref[k], 'iterator yields a wrong row', trace, i, k, tuple(r), ref)
            got[i].append(tuple(r))
        its = None
        view = None
        r = None
        gc.collect()
        left = os.listdir(td)
        check(left == [], 'spill file outlives the view and all its iterators', trace, left)


# --------------------------------------------------------------------------
BOUNDS = {
    'quick': 'histories of H=4 symbolic operations over 2 iterator slots and the view ({advance/create it_i, release it_i, '
             'release the view}); (nrows, buffersize, cache) in {(2,1,T),(2,1,F),(3,2,T),(3,3,T),(2,2,F),(3,None,T)}; source failure '
             'at a symbolic row (H=3); sort, reverse sort, join, distinct, aggregate, complement, mergesort, fromdicts(generator)',
    'thorough': 'H=5 with 2 slots, H=4 with 3 slots (source failure: H=4); nrows up to 4; deep family for sort(n=2, buffersize=1, cache=True): 3 slots, H=7, case-split by the first three operations',
}
OUTSIDE = 'interpreters without reference counting (immediate finalisation is assumed; gc.collect() is called before listing); more than 3 live iterators'
STUBS = ['PickleStub (keeps real files: creation, re-opening, EOF, unlink are real)', 'private temp dir as tempdir= and tempfile.tempdir',
         'FailingSource']
ASSUMPTIONS = ['cell values concrete (irrelevant to file lifetime)', 'CPython reference counting']
RULE = 'Jobs case-split (operator, nrows, buffersize, cache, slots); the history is symbolic: every sequence of H operations is a path.'


def valid_prefixes(nslots, length):
    """Action prefixes that survive the no-op / symmetry pruning rules (abstract replay of the rules; an iterator
    cannot be exhausted within a prefix this short)."""
    res = []

    def rec(prefix, view, slots, used):
        if len(prefix) == length:
            res.append(list(prefix))
            return
        for act in range(3 * nslots + 1):
            v, sl, us = view, list(slots), list(used)
            if act == 3 * nslots:
                if not v:
                    continue
                v = False
            else:
                i, kind = act % nslots, act // nslots
                if not (i == 0 or us[i - 1] or us[i]):
                    continue
                if kind == 1:
                    if not sl[i]:
                        continue
                    sl[i] = False
                elif kind == 2:
                    if sl[i] or not v:
                        continue
                    sl[i] = True
                    us[i] = True
                else:
                    if not sl[i]:
                        if not v:
                            continue
                        sl[i] = True
                        us[i] = True
            rec(prefix + [act], v, sl, us)
    rec([], True, [False] * nslots, [False] * nslots)
    return res


def jobs(tier):
    q = tier == 'quick'
    out = []
    cfgs = [(2, 1, True), (2, 1, False), (3, 2, True), (3, 3, True), (2, 2, False), (3, None, True)]
    if not q:
        cfgs += [(4, 2, True), (4, 3, False), (4, 1, True)]
    shapes = [(4, 2)] if q else [(5, 2), (4, 3)]
    for (n, bs, cache) in cfgs:
        for (H, ns) in shapes:
            out.append(dict(name='sort/n=%d/bs=%s/cache=%d/H=%d/slots=%d' % (n, bs, cache, H, ns), func='history',
                            params=dict(op='sort', n=n, bs=bs, cache=cache, H=H, nslots=ns),
                            budget=240 if q else 3000, per_path=20, validate_every=1 if q else 4))
    if not q:
        # deep family: 3 slots, 7 operations, split by the first three operations
        for pre in valid_prefixes(3, 3):
            out.append(dict(name='deep/sort/n=2/bs=1/cache=1/H=7/slots=3/prefix=%s' % '-'.join(map(str, pre)), func='history',
                            params=dict(op='sort', n=2, bs=1, cache=True, H=7, nslots=3, prefix=pre),
                            budget=3000, per_path=20, validate_every=8))
    for op in ('sort-reverse', 'join', 'distinct', 'aggregate', 'complement', 'mergesort'):
        for (n, bs, cache) in ([(3, 1, True), (3, 2, False)] if q else [(3, 1, True), (3, 2, False), (4, 2, True)]):
            for (H, ns) in ([(4, 2)] if q else [(5, 2), (4, 3)]):
                out.append(dict(name='%s/n=%d/bs=%s/cache=%d/H=%d/slots=%d' % (op, n, bs, cache, H, ns), func='history',
                                params=dict(op=op, n=n, bs=bs, cache=cache, H=H, nslots=ns),
                                budget=240 if q else 3000, per_path=20, validate_every=1 if q else 4))
    for op in ('sort', 'join', 'distinct'):
        for (n, bs, cache) in [(3, 1, True), (3, 2, True), (2, 1, False)]:
            for (H, ns) in ([(3, 2)] if q else [(4, 2)]):
                out.append(dict(name='fail/%s/n=%d/bs=%s/cache=%d/H=%d/slots=%d' % (op, n, bs, cache, H, ns),
                                func='history', params=dict(op=op, n=n, bs=bs, cache=cache, H=H, nslots=ns, fail=True),
                                budget=240 if q else 3000, per_path=20, validate_every=1 if q else 4))
    # iterators sharing the fromdicts spill file still yield the complete sequence (schedule harness of C01)
    for kind in ('fromdicts-generator', 'fromdicts-generator-noheader', 'csv-sort-pipeline'):
        out.append(dict(name='spill-interleaved/%s/R=3/L=%d' % (kind, 7 if q else 8), module='props.c01', func='io_view',
                        params=dict(kind=kind, R=3, L=7 if q else 8, nits=2), budget=240 if q else 3000, per_path=20,
                        validate_every=1 if q else 4))
    for n in (2, 3):
        for (H, ns) in ([(4, 2)] if q else [(6, 2), (5, 3)]):
            out.append(dict(name='fromdicts-generator/n=%d/H=%d/slots=%d' % (n, H, ns), func='fromdicts_history',
                            params=dict(n=n, H=H, nslots=ns), budget=240 if q else 3000, per_path=20,
                            validate_every=1 if q else 4))
        out.append(dict(name='fail/fromdicts-generator/n=%d' % n, func='fromdicts_history',
                        params=dict(n=n, H=3 if q else 5, nslots=2, fail=True), budget=240 if q else 3000, per_path=20))
    return out
