"""C19 - the failonerror policy decides exactly what a failing conversion
becomes."""
from collections import OrderedDict

import petl
import petl.config

from engine.shim import check

from .common import nrows

PROPERTY = 'C19'

EXC = {'ValueError': ValueError, 'KeyError': KeyError, 'IndexError': IndexError, 'TypeError': TypeError,
       'ZeroDivisionError': ZeroDivisionError}
POLICIES = [False, True, 'inline']


class _Policy(object):
    """Sets the policy through the argument or through petl.config."""

    def __init__(self, sym):
        self.policy = POLICIES[sym.choice('policy', 3)]
        self.via_config = sym.flag('via_config')
        self.saved = None

    def kwargs(self):
        return {} if self.via_config else {'failonerror': self.policy}

    def __enter__(self):
        self.saved = petl.config.failonerror
        # when the argument is given, the config holds a *different* policy
        petl.config.failonerror = self.policy if self.via_config else \
            POLICIES[(POLICIES.index(self.policy) + 1) % 3]
        return self

    def __exit__(self, *a):
        petl.config.failonerror = self.saved


def _consume(view, exc):
    """Iterate; returns (rows delivered, raised exception or None)."""
    got = []
    it = iter(view)
    try:
        for r in it:
            got.append(tuple(r))
    except exc as e:
        return got, e
    return got, None


def convert_op(sym, form, N, exc):
    E = EXC[exc]
    n = nrows(sym, 'n', N)
    fails = [sym.flag('fail%d' % i) for i in range(n)]
    fails2 = [sym.flag('fail2_%d' % i) for i in range(n)] if form == 'twofields' else [False] * n
    errorvalue = sym.pick('errorvalue', [None, 'ERR'])
    rows = [['T%d' % i, i, 100 + i] for i in range(n)]
    table = [['t', 'v', 'w']] + rows

    def conv(v, *rest):
        if fails[v]:
            raise E('boom %d' % v)
        return ('ok', v)

    def conv2(w, *rest):
        if fails2[w - 100]:
            raise E('boom2 %d' % w)
        return ('ok2', w)

    with _Policy(sym) as pol:
        kw = dict(pol.kwargs(), errorvalue=errorvalue)
        skip = [False] * n
        if form == 'value':
            view = petl.convert(table, 'v', conv, **kw)
        elif form == 'twofields':
            view = petl.convert(table, {'v': conv, 'w': conv2}, **kw)
        elif form == 'pass_row':
            view = petl.convert(table, 'v', lambda v, row: conv(row['v']), pass_row=True, **kw)
        elif form == 'pass_row_short':
            # rows 0.. are short (no 'w'); the converter reads the absent field through the row: it is None, never errorvalue
            table = [['t', 'v', 'w']] + [r[:2] for r in rows]

            def conv_short(v, row):
                if row['w'] is not None:
                    return ('saw', row['w'])
                return conv(v)
            view = petl.convert(table, 'v', conv_short, pass_row=True, **kw)
        elif form == 'where':
            skip = [i % 2 == 1 for i in range(n)]
            view = petl.convert(table, 'v', conv, where=lambda rec: rec['v'] % 2 == 0, **kw)
        elif form == 'suffix':
            view = petl.convert(table, **kw)
            view['v'] = conv
        else:
            raise ValueError(form)
        got, raised = _consume(view, E)
    policy = pol.policy
    check(len(got) >= 1 and got[0] == ('t', 'v', 'w'), 'header', got[:1])
    exp = []
    exp_raise = False
    for i in range(n):
        f1 = fails[i] and not skip[i]
        f2 = fails2[i]
        if policy is True and (f1 or f2):
            exp_raise = True
            break
        exp.append((i, f1, f2))
    check((raised is not None) == exp_raise, 'exception surfaced / not surfaced', policy, fails, fails2, raised)
    check(len(got) - 1 == len(exp), 'rows delivered before the failure / in total', policy, fails, got)
    for r, (i, f1, f2) in zip(got[1:], exp):
        if form == 'pass_row_short':
            check(len(r) == 2 and r[0] == 'T%d' % i, 'short row changed shape', r)
            r = r + (100 + i,)
        check(len(r) == 3 and r[0] == 'T%d' % i, 'untouched cell changed', r)
        for cellv, f, okv, raw in ((r[1], f1, ('ok', i), i), (r[2], f2, ('ok2', 100 + i), 100 + i)):
            if form != 'twofields' and raw >= 100:
                check(cellv == raw, 'unconverted field changed', r)
            elif raw < 100 and skip[i]:
                check(cellv == raw, 'row excluded by where was converted', r)
            elif f:
                if policy == 'inline':
                    check(isinstance(cellv, E), 'inline: failing cell is not the exception object', r)
                else:
                    check(cellv == errorvalue and (cellv is None) == (errorvalue is None),
                          'failonerror=False: failing cell is not errorvalue', r, errorvalue)
            else:
                check(cellv == okv, 'non-failing cell differs', r, okv)


def fieldmap_op(sym, N, exc):
    E = EXC[exc]
    n = nrows(sym, 'n', N)
    fails = [sym.flag('fail%d' % i) for i in range(n)]
    fails2 = [sym.flag('fail2_%d' % i) for i in range(n)]
    errorvalue = sym.pick('errorvalue', [None, 'ERR'])
    table = [['t', 'v']] + [['T%d' % i, i] for i in range(n)]

    def conv(v):
        if fails[v]:
            raise E('boom %d' % v)
        return ('ok', v)

    def conv2(rec):
        if fails2[rec['v']]:
            raise E('boom2')
        return ('ok2', rec['v'])
    m = OrderedDict()
    m['a'] = 't'
    m['b'] = 'v', conv
    m['c'] = conv2
    with _Policy(sym) as pol:
        got, raised = _consume(petl.fieldmap(table, m, errorvalue=errorvalue, **pol.kwargs()), E)
    policy = pol.policy
    check(got[0] == ('a', 'b', 'c'), 'header', got[:1])
    exp, exp_raise = [], False
    for i in range(n):
        if policy is True and (fails[i] or fails2[i]):
            exp_raise = True
            break
        exp.append(i)
    check((raised is not None) == exp_raise, 'exception surfaced / not surfaced', policy, fails, fails2)
    check(len(got) - 1 == len(exp), 'rows delivered', policy, fails, fails2, got)
    for r, i in zip(got[1:], exp):
        check(r[0] == 'T%d' % i, 'passthrough cell', r)
        for cellv, f, okv in ((r[1], fails[i], ('ok', i)), (r[2], fails2[i], ('ok2', i))):
            if f:
                if policy == 'inline':
                    check(isinstance(cellv, E), 'inline: cell is not the exception', r)
                else:
                    check(cellv == errorvalue and (cellv is None) == (errorvalue is None), 'errorvalue', r)
            else:
                check(cellv == okv, 'non-failing cell differs', r)


def rowmap_op(sym, N, exc, lazy):
    E = EXC[exc]
    n = nrows(sym, 'n', N)
    fails = [sym.flag('fail%d' % i) for i in range(n)]
    table = [['t', 'v']] + [['T%d' % i, i] for i in range(n)]

    def boom(i):
        raise E('boom %d' % i)

    def mapper(rec):
        i = rec['v']
        if lazy:
            # fails only when the returned iterable is consumed
            return (boom(i) if (fails[i] and j == 1) else x for j, x in enumerate([rec['t'], i * 2]))
        if fails[i]:
            boom(i)
        return [rec['t'], i * 2]
    with _Policy(sym) as pol:
        got, raised = _consume(petl.rowmap(table, mapper, header=['t', 'd'], **pol.kwargs()), E)
    policy = pol.policy
    check(got[0] == ('t', 'd'), 'header', got[:1])
    exp, exp_raise = [], False
    for i in range(n):
        if fails[i]:
            if policy is True:
                exp_raise = True
                break
            if policy == 'inline':
                exp.append(('exc', i))
        else:
            exp.append(('row', i))
    check((raised is not None) == exp_raise, 'exception surfaced / not surfaced', policy, fails)
    check(len(got) - 1 == len(exp), 'rows delivered (failing rows dropped with False)', policy, fails, got)
    for r, (kind, i) in zip(got[1:], exp):
        if kind == 'row':
            check(r == ('T%d' % i, i * 2), 'non-failing row differs', r)
        else:
            check(len(r) == 1 and isinstance(r[0], E), 'inline: row is not (exception,)', r)


def rowmapmany_op(sym, N, exc):
    E = EXC[exc]
    n = nrows(sym, 'n', N)
    fails = [sym.flag('fail%d' % i) for i in range(n)]
    before = [sym.choice('before%d' % i, 3) for i in range(n)]   # rows produced before failing
    table = [['t', 'v']] + [['T%d' % i, i] for i in range(n)]

    def gen(rec):
        i = rec['v']
        if fails[i]:
            for j in range(before[i]):
                yield [rec['t'], j]
            raise E('boom %d' % i)
        for j in range(2):
            yield [rec['t'], j]
    with _Policy(sym) as pol:
        got, raised = _consume(petl.rowmapmany(table, gen, header=['t', 'j'], **pol.kwargs()), E)
    policy = pol.policy
    check(got[0] == ('t', 'j'), 'header', got[:1])
    exp, exp_raise = [], False
    for i in range(n):
        if fails[i]:
            exp.extend(('T%d' % i, j) for j in range(before[i]))      # earlier generator output is kept
            if policy is True:
                exp_raise = True
                break
            if policy == 'inline':
                exp.append('exc')
        else:
            exp.extend(('T%d' % i, j) for j in range(2))
    check((raised is not None) == exp_raise, 'exception surfaced / not surfaced', policy, fails)
    check(len(got) - 1 == len(exp), 'rows delivered', policy, fails, before, got)
    for r, e in zip(got[1:], exp):
        if e == 'exc':
            check(len(r) == 1 and isinstance(r[0], E), 'inline: row is not (exception,)', r)
        else:
            check(r == e, 'row differs', r, e)


# --------------------------------------------------------------------------
BOUNDS = {
    'quick': 'n in [0,3] rows; a symbolic failing flag per row (and per field for two-field convert / fieldmap); policy in '
             '{False, True, inline} symbolic; policy source (argument vs petl.config.failonerror) symbolic; errorvalue in '
             '{None, marker}; rowmapmany: 0..2 rows produced before the failure; exception classes ValueError, KeyError, IndexError',
    'thorough': 'n in [0,4]; exception classes + TypeError, ZeroDivisionError',
}
OUTSIDE = 'exceptions that are not subclasses of Exception; converters given as method names / dictionaries (they cannot fail per row at will)'
STUBS = []
ASSUMPTIONS = ['petl.config.failonerror is set to a different policy when the argument is given, to the policy under test when omitted; restored afterwards']
RULE = 'Jobs case-split (operator/argument form, exception class); row count, failing subsets, policy, source, errorvalue symbolic.'


def jobs(tier):
    q = tier == 'quick'
    N = 3 if q else 4
    B = 150 if q else 900
    excs = ['ValueError', 'KeyError', 'IndexError'] if q else list(EXC)
    out = []
    for exc in excs:
        for form in ('value', 'twofields', 'pass_row', 'pass_row_short', 'where', 'suffix'):
            if q and exc != 'ValueError' and form in ('pass_row', 'pass_row_short', 'suffix'):
                continue
            out.append(dict(name='convert-%s/%s' % (form, exc), func='convert_op',
                            params=dict(form=form, N=N - (form == 'twofields'), exc=exc), budget=B))
        out.append(dict(name='fieldmap/%s' % exc, func='fieldmap_op', params=dict(N=N - 1, exc=exc), budget=B))
        for lazy in (False, True):
            out.append(dict(name='rowmap/lazy=%d/%s' % (lazy, exc), func='rowmap_op',
                            params=dict(N=N, exc=exc, lazy=lazy), budget=B))
        out.append(dict(name='rowmapmany/%s' % exc, func='rowmapmany_op', params=dict(N=N - 1 if q else N - 1, exc=exc),
                        budget=B))
    return out
