"""C01 - table views are re-iterable and their iterators mutually independent.

The schedule (which iterator advances / is re-created next) is a sequence of
symbolic choices; the solver enumerates every interleaving within the bound."""
import os
import sqlite3

import petl
from petl.util.materialise import cache as pcache

from engine.ref import row_eq
from engine.shim import assume, check
from engine.stubs import pickle_stub, private_tempdir, default_tempdir, rng_stub, clock_stub

from .catalogue import ALL, ALL_BY_NAME, HDR

PROPERTY = 'C01'

BASE_ROWS = [[2, 20, 'z,w'], [1, 10, 'x,y'], [2, 21, 'u,v'], [3, 30, 'a,b']]


def _norm(r):
    if isinstance(r, dict):
        return tuple(sorted(r.items()))
    if isinstance(r, (list, tuple)):
        return tuple(r)
    return (r,)


def _same(a, b):
    a, b = _norm(a), _norm(b)
    if len(a) != len(b):
        return False
    for x, y in zip(a, b):
        if isinstance(x, (list, tuple)) and isinstance(y, (list, tuple)):
            if not _same(x, y):
                return False
        elif not (x is y or x == y):
            return False
    return True


def _source(sym, R, nsym):
    rows = [list(r) for r in BASE_ROWS[:R]]
    for i in range(min(nsym, R)):
        rows[i][0] = sym.int('a%d' % i)
    return rows


def _run(sym, mk, L, nits, what, kf=None, renew0=False):
    """mk() -> a fresh view over a fresh identical source."""
    ref = [_norm(r) for r in mk()]            # solo pass = the oracle
    check(len(ref) >= 0, 'solo pass')
    view = mk()
    its = [None] * nits
    got = [[] for _ in range(nits)]
    done = [False] * nits
    trace = []
    last = None            # slot whose iterator touched the view's shared state most recently
    fresh_it = [False] * nits      # slot holds an iterator that was created and never advanced
    for step in range(L):
        if renew0:
            act = sym.choice('s%d' % step, 2 * nits)       # next_0..next_{n-1}, new_0..new_{n-1}
            i, kind = (act, 0) if act < nits else (act - nits, 1)
        else:
            act = sym.choice('s%d' % step, 2 * nits - 1)   # next_0..next_{n-1}, new_1..new_{n-1}
            i, kind = (act, 0) if act < nits else (act - nits + 1, 1)
        # schedules that differ only by no-ops are explored once (pruned, not passed)
        if kind == 0:
            assume(not done[i])
        else:
            assume(not fresh_it[i])
        if kf is not None and kind == 0 and its[i] is not None and len(got[i]) > 0 and last is not None and last != i:
            # known finding: region = an iterator that is mid-way is advanced after another one acted
            sym.known(kf, True)
        if kind == 0:
            last = i
        if kind == 1:
            # abandon iterator i (wherever it is) and create a new one, not yet advanced
            its[i] = iter(view)
            got[i] = []
            done[i] = False
            fresh_it[i] = True
            trace.append('new%d' % i)
            continue
        trace.append('next%d' % i)
        fresh_it[i] = False
        if its[i] is None:
            its[i] = iter(view)
        try:
            r = next(its[i])
        except StopIteration:
            done[i] = True
            check(len(got[i]) == len(ref), what + ': iterator ended early/late', trace, got[i], ref)
            continue
        k = len(got[i])
        check(k < len(ref), what + ': iterator yields more rows than a solo pass', trace, r, ref)
        check(_same(r, ref[k]), what + ': interleaved iterator differs from solo pass', trace, i, k, r, ref[k])
        got[i].append(_norm(r))
    # drop everything, then a fresh full pass
    its = None
    fresh = [_norm(r) for r in view]
    check(len(fresh) == len(ref) and all(_same(a, b) for a, b in zip(fresh, ref)),
          what + ': a later pass differs from the solo pass', trace, fresh, ref)
    fresh2 = [_norm(r) for r in view]
    check(len(fresh2) == len(ref) and all(_same(a, b) for a, b in zip(fresh2, ref)),
          what + ': a second later pass differs', trace, fresh2, ref)


def catalogue_view(sym, name, R, L, nits, nsym, renew0=False):
    make = ALL_BY_NAME[name][1]
    kind = ALL_BY_NAME[name][2].get('kind', 'table')
    rows = _source(sym, R, nsym)
    with pickle_stub(), private_tempdir() as td, default_tempdir(td), clock_stub([1]):
        if kind == 'pair':
            idx = sym.choice('member', 2)
            _run(sym, lambda: make([list(HDR)] + [list(r) for r in rows])[idx], L, nits, '%s[%d]' % (name, idx), renew0=renew0)
        else:
            _run(sym, lambda: make([list(HDR)] + [list(r) for r in rows]), L, nits, name, renew0=renew0)


def _write_sources(td, rows):
    table = [list(HDR)] + rows
    p = {}
    p['csv'] = os.path.join(td, 't.csv')
    petl.tocsv(table, p['csv'])
    p['tsv'] = os.path.join(td, 't.tsv')
    petl.totsv(table, p['tsv'])
    p['pickle'] = os.path.join(td, 't.p')
    petl.topickle(table, p['pickle'])
    p['json'] = os.path.join(td, 't.json')
    petl.tojson(table, p['json'])
    p['jsonl'] = os.path.join(td, 't.jsonl')
    petl.tojson(table, p['jsonl'], lines=True)
    p['text'] = os.path.join(td, 't.txt')
    petl.totext(table, p['text'], template='{a}|{b}|{c}\n')
    p['db'] = os.path.join(td, 't.db')
    con = sqlite3.connect(p['db'])
    con.execute('CREATE TABLE t (a, b, c)')
    con.executemany('INSERT INTO t VALUES (?,?,?)', rows)
    con.commit()
    con.close()
    return p


def io_view(sym, kind, R, L, nits):
    """Extract views over sources written before the schedule starts; views
    that keep state between iterators (fromdicts on a generator, random
    tables)."""
    rows = [list(r) for r in BASE_ROWS[:R]]
    with private_tempdir() as td, default_tempdir(td):
        p = _write_sources(td, rows)
        cons = []

        def mkdb():
            c = sqlite3.connect(p['db'])
            cons.append(c)
            return c
        makers = {
            'fromcsv': lambda: petl.fromcsv(p['csv']),
            'fromtsv': lambda: petl.fromtsv(p['tsv']),
            'frompickle': lambda: petl.frompickle(p['pickle']),
            'fromjson': lambda: petl.fromjson(p['json'], header=list(HDR)),
            'fromjson-lines': lambda: petl.fromjson(p['jsonl'], lines=True, header=list(HDR)),
            'fromtext': lambda: petl.fromtext(p['text']),
            'fromdb-connection': lambda: petl.fromdb(mkdb(), 'SELECT * FROM t'),
            'fromdicts-list': lambda: petl.fromdicts([dict(zip(HDR, r)) for r in rows], header=list(HDR)),
            'fromdicts-generator': lambda: petl.fromdicts((dict(zip(HDR, r)) for r in rows), header=list(HDR)),
            'fromdicts-generator-noheader': lambda: petl.fromdicts((dict(zip(HDR, r)) for r in rows)),
            'fromcolumns': lambda: petl.fromcolumns([[r[0] for r in rows], [r[1] for r in rows]], header=['a', 'b']),
            'memorysource-csv': lambda: petl.fromcsv(petl.MemorySource(open(p['csv'], 'rb').read())),
            'memorysource-pickle': lambda: petl.frompickle(petl.MemorySource(open(p['pickle'], 'rb').read())),
            'memorysource-json': lambda: petl.fromjson(petl.MemorySource(open(p['jsonl'], 'rb').read()), lines=True, header=list(HDR)),
            'memorysource-text': lambda: petl.fromtext(petl.MemorySource(open(p['text'], 'rb').read())),
            'csv-sort-pipeline': lambda: petl.sort(petl.fromcsv(p['csv']), 'a', buffersize=1),
        }
        try:
            with pickle_stub():
                _run(sym, makers[kind], L, nits, kind)
        finally:
            for c in cons:
                c.close()


def random_view(sym, kind, R, L, nits):
    with rng_stub() as rng:
        from functools import partial
        fields = [('foo', partial(rng.randint, 0, 100)), ('bar', partial(rng.choice, ('apples', 'pears'))),
                  ('baz', rng.random)]
        if kind == 'randomtable':
            mk = lambda: petl.randomtable(2, R, seed=42)
        elif kind == 'randomtable-wait':
            mk = lambda: petl.randomtable(2, R, wait=0, seed=7)
        elif kind == 'dummytable':
            mk = lambda: petl.dummytable(R, fields=fields, seed=42)
        elif kind == 'dummytable-reseed':
            def mk():
                t = petl.dummytable(R, fields=fields, seed=3)
                t.reseed()
                t.seed = 3
                return t
        else:
            raise ValueError(kind)
        _run(sym, mk, L, nits, kind, kf='KF-C01-dummytable-rng' if kind.startswith('dummytable') else None)


# --------------------------------------------------------------------------
BOUNDS = {
    'quick': '2 iterators over one view; schedule of L symbolic steps, each one of {advance it_i, abandon it_i and create a new '
             'one (any iterator for the stateful core views, the second one otherwise)}; L=4 over 2 data rows for streaming views, L=6 (+1 symbolic cell) for views that keep state between '
             'iterators (sorts with memory/file cache, sort-backed operators, hash joins, cache(n), fromdicts(generator), '
             'random tables); a fresh pass afterwards',
    'thorough': 'L=6 for every view; stateful core views: 2 iterators L=7 over 3 data rows, 3 iterators L=5 over 2 rows, L=6 with a '
                'symbolic key cell; sort / cache views: L=7 with any iterator re-creatable',
}
OUTSIDE = 'tee* views (statement); more than 3 live iterators; schedules longer than L; the real Mersenne Twister (RngStub); real wall clock'
STUBS = ['PickleStub', 'private temp dir as tempfile.tempdir', 'RngStub (random tables)', 'ClockStub (progress/clock)']
ASSUMPTIONS = ['the solo pass over a fresh identical source is the reference',
               'random tables: documented contract of random.seed()/random.Random (deterministic sequence per seed)']
RULE = 'One job per view; the interleaving schedule is symbolic: every sequence of L actions is a path.'

IO_KINDS = ['fromcsv', 'fromtsv', 'frompickle', 'fromjson', 'fromjson-lines', 'fromtext', 'fromdb-connection',
            'fromdicts-list', 'fromdicts-generator', 'fromdicts-generator-noheader', 'fromcolumns',
            'memorysource-csv', 'memorysource-pickle', 'memorysource-json', 'memorysource-text', 'csv-sort-pipeline']
RANDOM_KINDS = ['randomtable', 'dummytable']
HEAVY_STATE = ('sort', 'cache', 'distinct', 'aggregate', 'hash', 'join', 'leftjoin', 'rightjoin', 'outerjoin', 'lookupjoin',
               'antijoin', 'complement', 'intersection', 'mergesort', 'merge', 'duplicates', 'unique', 'conflicts', 'fold',
               'rowreduce', 'groupselect', 'mergeduplicates', 'recast', 'pivot', 'unjoin', 'diff', 'recorddiff',
               'recordcomplement', 'crossjoin', 'rowgroupmap', 'groupcount', 'valuecounts', 'fromdicts-roundtrip',
               'tail', 'transpose', 'unflatten')


def _stateful(name):
    return name.startswith(HEAVY_STATE)


CORE = ('sort', 'cache', 'hash', 'distinct-buffered', 'aggregate-buffered', 'join-L', 'mergesort-other')


def jobs(tier):
    q = tier == 'quick'
    out = []
    BQ, BT = 240, 3000

    def cfgs_for(core, st):
        if q:
            return [(2, 6, 2, 0)] if core else [(2, 4, 2, 0)]
        if core:
            return [(3, 7, 2, 0), (2, 5, 3, 0), (2, 6, 2, 1)]
        if st:
            return [(3, 6, 2, 0), (2, 5, 2, 1)]
        return [(2, 6, 2, 0)]

    for (name, make, opts) in ALL:
        if opts.get('kind') in ('value', 'noraise', 'dict'):
            continue
        cfgs = cfgs_for(name.startswith(CORE), _stateful(name))
        if not q and name.startswith(('sort-', 'cache')):
            cfgs = cfgs + [(2, 7, 2, -1)]          # -1: any iterator may be abandoned and re-created (4 actions per step)
        for (R, L, nits, nsym) in cfgs:
            core = name.startswith(CORE)
            out.append(dict(name='view/%s/R=%d/L=%d/its=%d/sym=%d%s' % (name, R, L, nits, max(nsym, 0), '/renew-any' if nsym == -1 else ''),
                            func='catalogue_view',
                            params=dict(name=name, R=R, L=L, nits=nits, nsym=max(nsym, 0),
                                        renew0=name.startswith(('sort-', 'cache')) and nits == 2 and (L <= 6 or nsym == -1)),
                            budget=BQ if q else BT, validate_every=1 if q else 4, per_path=20))
    for kind in IO_KINDS:
        core = kind.startswith(('fromdicts-generator', 'csv-sort'))
        for (R, L, nits, nsym) in cfgs_for(core, False):
            out.append(dict(name='io/%s/R=%d/L=%d/its=%d' % (kind, R, L, nits), func='io_view',
                            params=dict(kind=kind, R=R, L=L, nits=nits), budget=BQ if q else BT,
                            validate_every=1 if q else 4, per_path=20))
    if q:
        # the spill-file cache of fromdicts(generator) needs 3 data rows and 7 steps to be overwritten mid-file
        for kind in ('fromdicts-generator', 'fromdicts-generator-noheader'):
            out.append(dict(name='io/%s/R=3/L=7/its=2' % kind, func='io_view', params=dict(kind=kind, R=3, L=7, nits=2),
                            budget=BQ, per_path=20))
    for kind in RANDOM_KINDS:
        for (R, L, nits, nsym) in cfgs_for(True, True):
            if nsym:
                continue
            out.append(dict(name='random/%s/R=%d/L=%d/its=%d' % (kind, R, L, nits), func='random_view',
                            params=dict(kind=kind, R=R, L=L, nits=nits), budget=BQ if q else BT,
                            validate_every=1 if q else 4, per_path=20))
    return out
