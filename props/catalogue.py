"""Operator catalogue (DESIGN 3.6): unary constructor closures over a table with
header ('a','b','c') - a: key-like ints, b: ints, c: text 'p,q'.

Each entry: (name, make, opts).  make(t) builds the view (or value) from the
table container t.  opts:
  kind      'table' (default) | 'pair' | 'dict' | 'value'
  hdr       explicit output header on a header-only input (default: the header the
            operator yields on the non-empty SAMPLE - its "usual header")
  rows      explicit data rows on a header-only input (default: none)
  value     for kind='value': the expected result on a header-only input
  stream    True if the operator is streaming (C02): pulls O(k) rows for k
  look      catalogued look-ahead constant for C02
  expands / drops  row-count behaviour (C12/C03 only need make)
"""
import operator
from collections import OrderedDict

import petl
from petl.util.materialise import cache as _pcache

HDR = ('a', 'b', 'c')
SAMPLE = [HDR, (2, 20, 'z,w'), (1, 10, 'x,y'), (2, 21, 'u,v')]


def _od(*pairs):
    return OrderedDict(pairs)


def _ctx(prv, cur, nxt):
    return 0 if prv is None else 1


U = []


def E(name, make, **opts):
    U.append((name, make, opts))


# ---- basics
E('cut', lambda t: petl.cut(t, 'a', 'c'), stream=True)
E('cut-index', lambda t: petl.cut(t, 2, 0), stream=True)
E('cutout', lambda t: petl.cutout(t, 'b'), stream=True)
E('movefield', lambda t: petl.movefield(t, 'c', 0), stream=True)
E('cat', lambda t: petl.cat(t), stream=True)
E('cat-self', lambda t: petl.cat(t, t), stream=True)
E('cat-header', lambda t: petl.cat(t, header=['c', 'a', 'z']), stream=True)
E('stack', lambda t: petl.stack(t, t), stream=True)
E('addfield-const', lambda t: petl.addfield(t, 'd', 1), stream=True)
E('addfield-fn', lambda t: petl.addfield(t, 'd', lambda r: r['a']), stream=True)
E('addfield-index', lambda t: petl.addfield(t, 'd', 1, index=0), stream=True)
E('addfields', lambda t: petl.addfields(t, [('d', 1), ('e', lambda r: r['b'])]), stream=True)
E('addcolumn', lambda t: petl.addcolumn(t, 'd', [7, 8]), stream=True,
  rows=[(None, None, None, 7), (None, None, None, 8)])    # the column is longer than the table: padded rows
E('addrownumbers', lambda t: petl.addrownumbers(t), stream=True)
E('addfieldusingcontext', lambda t: petl.addfieldusingcontext(t, 'd', _ctx), stream=True, look=1)
E('annex', lambda t: petl.annex(t, t), stream=True)
E('head', lambda t: petl.head(t, 2), stream=True)
E('tail', lambda t: petl.tail(t, 2))
E('rowslice', lambda t: petl.rowslice(t, 1, 3), stream=True)
E('skipcomments', lambda t: petl.skipcomments(t, '#'), stream=True)
# ---- headers
E('rename', lambda t: petl.rename(t, 'a', 'x'), stream=True)
E('rename-swap', lambda t: petl.rename(t, {'a': 'b', 'b': 'a'}), stream=True, hdr=('b', 'a', 'c'))
E('rename-dict', lambda t: petl.rename(t, {'a': 'x', 'c': 'z'}), stream=True)
E('setheader', lambda t: petl.setheader(t, ['x', 'y', 'z']), stream=True)
E('extendheader', lambda t: petl.extendheader(t, ['d']), stream=True)
E('pushheader', lambda t: petl.pushheader(t, ['x', 'y', 'z']), stream=True, rows=[HDR])
E('prefixheader', lambda t: petl.prefixheader(t, 'p_'), stream=True)
E('suffixheader', lambda t: petl.suffixheader(t, '_s'), stream=True)
E('sortheader', lambda t: petl.sortheader(t), stream=True)
E('skip', lambda t: petl.skip(t, 1), stream=True, hdr=None, header_is_data=True)   # its header IS the first data row
# ---- conversions
E('convert', lambda t: petl.convert(t, 'b', lambda v: v + 1), stream=True)
E('convert-dict', lambda t: petl.convert(t, {'a': str, 'b': float}), stream=True)
E('convert-where', lambda t: petl.convert(t, 'b', lambda v: v + 1, where=lambda r: r['a'] == 1), stream=True)
E('convertall', lambda t: petl.convertall(t, str), stream=True)
E('convertnumbers', lambda t: petl.convertnumbers(t), stream=True)
E('replace', lambda t: petl.replace(t, 'a', 1, 9), stream=True)
E('replaceall', lambda t: petl.replaceall(t, 1, 9), stream=True)
E('update', lambda t: petl.update(t, 'b', 0), stream=True)
E('format', lambda t: petl.format(t, 'b', '{:03d}'), stream=True)
E('formatall', lambda t: petl.formatall(t, '<{}>'), stream=True)
E('interpolate', lambda t: petl.interpolate(t, 'b', '%05d'), stream=True)
E('interpolateall', lambda t: petl.interpolateall(t, '<%s>'), stream=True)
# ---- selects
E('select-field', lambda t: petl.select(t, 'a', lambda v: v == 2), stream=True)
E('select-row', lambda t: petl.select(t, lambda r: r['a'] == 2), stream=True)
E('select-expr', lambda t: petl.select(t, '{a} == 2'), stream=True)
E('selecteq', lambda t: petl.selecteq(t, 'a', 2), stream=True)
E('selectne', lambda t: petl.selectne(t, 'a', 2), stream=True)
E('selectlt', lambda t: petl.selectlt(t, 'a', 2), stream=True)
E('selectge', lambda t: petl.selectge(t, 'a', 2), stream=True)
E('selectin', lambda t: petl.selectin(t, 'a', [1, 2]), stream=True)
E('selectnotin', lambda t: petl.selectnotin(t, 'a', [1]), stream=True)
E('selectcontains', lambda t: petl.selectcontains(t, 'c', ','), stream=True)
E('selectrangeopen', lambda t: petl.selectrangeopen(t, 'a', 0, 5), stream=True)
E('selectrangeclosed', lambda t: petl.selectrangeclosed(t, 'a', 0, 5), stream=True)
E('selectnone', lambda t: petl.selectnone(t, 'a'), stream=True)
E('selectnotnone', lambda t: petl.selectnotnone(t, 'a'), stream=True)
E('selecttrue', lambda t: petl.selecttrue(t, 'a'), stream=True)
E('selectfalse', lambda t: petl.selectfalse(t, 'a'), stream=True)
E('selectis', lambda t: petl.selectis(t, 'a', None), stream=True)
E('selectisinstance', lambda t: petl.selectisinstance(t, 'a', int), stream=True)
E('selectusingcontext', lambda t: petl.selectusingcontext(t, lambda p, c, n: True), stream=True, look=1)
E('rowlenselect', lambda t: petl.rowlenselect(t, 3), stream=True)
E('biselect', lambda t: petl.biselect(t, 'a', lambda v: v == 2), kind='pair')
E('facet', lambda t: petl.facet(t, 'a'), kind='dict')
# ---- fills
E('filldown', lambda t: petl.filldown(t), stream=True)
E('filldown-fields', lambda t: petl.filldown(t, 'b', 'c'), stream=True)
E('fillright', lambda t: petl.fillright(t), stream=True)
E('fillleft', lambda t: petl.fillleft(t), stream=True)
# ---- maps
E('fieldmap', lambda t: petl.fieldmap(t, _od(('x', 'a'), ('y', ('b', lambda v: v * 2)), ('z', lambda r: r['c']))), stream=True)
E('rowmap', lambda t: petl.rowmap(t, lambda r: [r['a'], r['b'] * 2], header=['x', 'y']), stream=True)
E('rowmapmany', lambda t: petl.rowmapmany(t, lambda r: [[r['a'], 0], [r['a'], 1]], header=['x', 'i']), stream=True)
E('rowgroupmap', lambda t: petl.rowgroupmap(t, 'a', lambda k, rows: [[k, len(list(rows))]], header=['a', 'n']))
# ---- regex
E('capture', lambda t: petl.capture(t, 'c', '(.),(.)', ['p', 'q']), stream=True)
E('capture-include', lambda t: petl.capture(t, 'c', '(.),(.)', ['p', 'q'], include_original=True), stream=True)
E('split', lambda t: petl.split(t, 'c', ',', ['p', 'q']), stream=True)
E('splitdown', lambda t: petl.splitdown(t, 'c', ','), stream=True)
E('sub', lambda t: petl.sub(t, 'c', ',', ';'), stream=True)
E('search', lambda t: petl.search(t, 'c', 'x'), stream=True)
E('search-all', lambda t: petl.search(t, 'x'), stream=True)
E('searchcomplement', lambda t: petl.searchcomplement(t, 'c', 'x'), stream=True)
# ---- unpacks
E('unpack', lambda t: petl.unpack(petl.convert(t, 'c', lambda v: v.split(',')), 'c', ['p', 'q']), stream=True)
E('unpackdict', lambda t: petl.unpackdict(petl.convert(t, 'c', lambda v: {'p': v}), 'c', keys=['p']), stream=True)
E('unpackdict-sample-nondict', lambda t: petl.unpackdict(petl.convert(t, 'c', lambda v: {'p': v} if v != 'z,w' else None), 'c', samplesize=2),
  hdr=('a', 'b'), stream=True, look=2)
E('unpackdict-sample', lambda t: petl.unpackdict(petl.convert(t, 'c', lambda v: {'p': v}), 'c', samplesize=2),
  hdr=('a', 'b'), stream=True, look=2)
# ---- reshape
E('melt', lambda t: petl.melt(t, 'a'), stream=True)
E('melt-variables', lambda t: petl.melt(t, key='a', variables=['b']), stream=True)
E('recast', lambda t: petl.recast(petl.melt(t, 'a'), key='a', reducers={'b': list, 'c': list}), hdr=('a',))
E('transpose', lambda t: petl.transpose(t), hdr=('a',), rows=[('b',), ('c',)])
E('pivot', lambda t: petl.pivot(t, 'a', 'c', 'b', sum), hdr=('a',))
E('flatten', lambda t: petl.flatten(t), kind='values', stream=True)
E('unflatten', lambda t: petl.unflatten(petl.flatten(t), 3), hdr=('f0', 'f1', 'f2'), stream=True)
E('unflatten-field', lambda t: petl.unflatten(t, 'b', 2), hdr=('f0', 'f1'), stream=True)
# ---- dedup / sorts / reductions (sort-backed)
E('sort', lambda t: petl.sort(t, 'a'))
E('sort-none', lambda t: petl.sort(t))
E('sort-reverse-buffered', lambda t: petl.sort(t, 'a', reverse=True, buffersize=2))
E('mergesort', lambda t: petl.mergesort(t, t, key='a'))
E('duplicates', lambda t: petl.duplicates(t, 'a'))
E('unique', lambda t: petl.unique(t, 'a'))
E('distinct', lambda t: petl.distinct(t))
E('distinct-key-count', lambda t: petl.distinct(t, 'a', count='n'))
E('conflicts', lambda t: petl.conflicts(t, 'a'))
E('aggregate-len', lambda t: petl.aggregate(t, 'a', len))
E('aggregate-sum', lambda t: petl.aggregate(t, 'a', sum, 'b'))
E('aggregate-multi', lambda t: petl.aggregate(t, 'a', _od(('n', len), ('s', ('b', sum)))))
E('aggregate-none-len', lambda t: petl.aggregate(t, None, len), rows=[(0,)])
E('aggregate-none-sum', lambda t: petl.aggregate(t, None, sum, 'b'), rows=[(0,)])
E('rowreduce', lambda t: petl.rowreduce(t, 'a', lambda k, rows: [k, len(list(rows))], header=['a', 'n']))
E('fold', lambda t: petl.fold(t, 'a', operator.add, 'b'))
E('groupselectfirst', lambda t: petl.groupselectfirst(t, 'a'))
E('groupselectlast', lambda t: petl.groupselectlast(t, 'a'))
E('groupselectmin', lambda t: petl.groupselectmin(t, 'a', 'b'))
E('groupselectmax', lambda t: petl.groupselectmax(t, 'a', 'b'))
E('mergeduplicates', lambda t: petl.mergeduplicates(t, 'a'))
E('merge', lambda t: petl.merge(t, t, key='a'))
E('groupcountdistinctvalues', lambda t: petl.groupcountdistinctvalues(t, 'a', 'b'))
E('valuecounts', lambda t: petl.valuecounts(t, 'a'))
E('unjoin', lambda t: petl.unjoin(t, 'c', key='a'), kind='pair')
# ---- accessors / materialisers / pass-through
E('values', lambda t: petl.values(t, 'a'), kind='values', stream=True)
E('values-multi', lambda t: petl.values(t, 'a', 'b'), kind='values', stream=True)
E('data', lambda t: petl.data(t), kind='values', stream=True)
E('dicts', lambda t: petl.dicts(t), kind='values', stream=True)
E('records', lambda t: petl.records(t), kind='values', stream=True)
E('namedtuples', lambda t: petl.namedtuples(t), kind='values', stream=True)
E('wrap', lambda t: petl.wrap(t), stream=True)
E('cache', lambda t: petl.wrap(t).cache(), stream=True)
E('rowgroupby', lambda t: [(k, [tuple(r) for r in g]) for k, g in petl.rowgroupby(petl.sort(t, 'a'), 'a')], kind='value', value=[])
E('header', lambda t: tuple(petl.header(t)), kind='value', value=HDR)
E('fieldnames', lambda t: tuple(petl.fieldnames(t)), kind='value', value=HDR)
E('nrows', lambda t: petl.nrows(t), kind='value', value=0)
E('columns', lambda t: dict(petl.columns(t)), kind='value', value={'a': [], 'b': [], 'c': []})
E('listoflists', lambda t: petl.listoflists(t), kind='value', value=[list(HDR)])
E('lookup', lambda t: petl.lookup(t, 'a'), kind='value', value={})
E('lookupone', lambda t: petl.lookupone(t, 'a'), kind='value', value={})
E('dictlookup', lambda t: petl.dictlookup(t, 'a'), kind='value', value={})
E('recordlookupone', lambda t: petl.recordlookupone(t, 'a'), kind='value', value={})
E('isunique', lambda t: petl.isunique(t, 'a'), kind='value', value=True)
E('issorted', lambda t: petl.issorted(t, 'a'), kind='value', value=True)
E('issorted-none', lambda t: petl.issorted(t), kind='value', value=True)
E('valuecounter', lambda t: dict(petl.valuecounter(t, 'a')), kind='value', value={})
E('typecounter', lambda t: dict(petl.typecounter(t, 'a')), kind='value', value={})
E('limits', lambda t: petl.limits(t, 'b'), kind='value', value=(None, None))
E('look', lambda t: str(petl.look(t)), kind='noraise')
E('lookall', lambda t: str(petl.lookall(t)), kind='noraise')
E('see', lambda t: str(petl.see(t)), kind='noraise')
E('repr', lambda t: repr(petl.wrap(t)), kind='noraise')
E('diffheaders', lambda t: petl.diffheaders(t, t), kind='value', value=(set(), set()))
E('diffvalues', lambda t: petl.diffvalues(t, t, 'a'), kind='value', value=(set(), set()))
E('typeset', lambda t: petl.typeset(t, 'a'), kind='value', value=set())
E('fromcolumns-roundtrip', lambda t: petl.fromcolumns([list(petl.values(t, f)) for f in HDR], header=list(HDR)), eager=True)
E('fromdicts-roundtrip', lambda t: petl.fromdicts(list(petl.dicts(t)), header=list(HDR)), eager=True)

NAMES = [u[0] for u in U]
BY_NAME = dict((u[0], u) for u in U)


# ---------------------------------------------------------------------------
# multi-input operators as unary closures over a fixed second table
OTHER = [('a', 'z'), (1, 'p'), (2, 'q'), (2, 'r'), (3, 's')]
SAME = [HDR, (2, 20, 'z,w'), (5, 50, 'm,n')]

B = []


def EB(name, make, **opts):
    B.append((name, make, opts))


for _op in ('join', 'leftjoin', 'rightjoin', 'outerjoin', 'lookupjoin', 'antijoin'):
    EB(_op + '-L', lambda t, _op=_op: getattr(petl, _op)(t, OTHER, key='a'))
    EB(_op + '-R', lambda t, _op=_op: getattr(petl, _op)(OTHER, t, key='a'))
    EB(_op + '-L-buffered-nocache', lambda t, _op=_op: getattr(petl, _op)(t, OTHER, key='a', buffersize=1, cache=False))
for _op in ('hashjoin', 'hashleftjoin', 'hashrightjoin'):
    # stream=True: t is the streamed side; 'build': t is the build side (read completely by design)
    EB(_op + '-L', lambda t, _op=_op: getattr(petl, _op)(t, OTHER, key='a'), stream=('build' if _op == 'hashrightjoin' else True))
    EB(_op + '-R', lambda t, _op=_op: getattr(petl, _op)(OTHER, t, key='a'), stream=(True if _op == 'hashrightjoin' else 'build'))
    EB(_op + '-L-nocache', lambda t, _op=_op: getattr(petl, _op)(t, OTHER, key='a', cache=False))
for _op in ('hashlookupjoin', 'hashantijoin'):
    EB(_op + '-L', lambda t, _op=_op: getattr(petl, _op)(t, OTHER, key='a'), stream=True)
    EB(_op + '-R', lambda t, _op=_op: getattr(petl, _op)(OTHER, t, key='a'), stream='build')
EB('crossjoin-L', lambda t: petl.crossjoin(t, OTHER))
EB('crossjoin-R', lambda t: petl.crossjoin(OTHER, t))
for _op in ('complement', 'intersection', 'recordcomplement', 'hashcomplement', 'hashintersection'):
    EB(_op + '-L', lambda t, _op=_op: getattr(petl, _op)(t, SAME))
    EB(_op + '-R', lambda t, _op=_op: getattr(petl, _op)(SAME, t))
EB('diff-L', lambda t: petl.diff(t, SAME), kind='pair')
EB('recorddiff-R', lambda t: petl.recorddiff(SAME, t), kind='pair')
EB('complement-strict-buffered', lambda t: petl.complement(t, SAME, strict=True, buffersize=1))
EB('mergesort-other', lambda t: petl.mergesort(t, SAME, key='a', buffersize=1))
EB('merge-other', lambda t: petl.merge(t, SAME, key='a'))
EB('cat-other', lambda t: petl.cat(t, OTHER), stream=True)
EB('stack-other', lambda t: petl.stack(t, OTHER), stream=True)
EB('annex-other', lambda t: petl.annex(t, OTHER), stream=True)
EB('addcolumn-values', lambda t: petl.addcolumn(t, 'z', petl.values(OTHER, 'z')), stream=True)
# sort / cache configurations that keep state between iterators
EB('sort-memcache', lambda t: petl.sort(t, 'a'))
EB('sort-filecache-1', lambda t: petl.sort(t, 'a', buffersize=1))
EB('sort-filecache-2', lambda t: petl.sort(t, 'a', buffersize=2))
EB('sort-filecache-reverse', lambda t: petl.sort(t, 'a', buffersize=1, reverse=True))
EB('sort-filecache-lastfield', lambda t: petl.sort(t, 'c', buffersize=1))
# key order is the opposite of the whole-row order
EB('sort-filecache-negkey', lambda t: petl.sort(petl.addfield(t, 'k', lambda r: -r['b']), 'k', buffersize=1))
EB('sort-nocache', lambda t: petl.sort(t, 'a', cache=False))
EB('sort-nocache-buffered', lambda t: petl.sort(t, 'a', buffersize=1, cache=False))
EB('distinct-buffered', lambda t: petl.distinct(t, 'a', buffersize=1))
EB('aggregate-buffered', lambda t: petl.aggregate(t, 'a', len, buffersize=2))
EB('cache-all', lambda t: petl.wrap(t).cache())
EB('cache-1', lambda t: petl.wrap(t).cache(1))
EB('cache-2', lambda t: petl.wrap(t).cache(2))
EB('cache-3', lambda t: petl.wrap(t).cache(3))
EB('cache-of-sort', lambda t: _pcache(petl.sort(t, 'a', buffersize=1)))
EB('progress', lambda t: petl.progress(t, 2, out=_Sink()), stream=True)
EB('clock', lambda t: petl.clock(t), stream=True)


class _Sink(object):
    def write(self, s):
        pass

    def flush(self):
        pass


ALL = U + B
ALL_BY_NAME = dict((e[0], e) for e in ALL)
STATEFUL = [e[0] for e in B if e[0].startswith(('sort-', 'cache', 'distinct-b', 'aggregate-b', 'hash', 'join', 'leftjoin',
                                                'outerjoin', 'lookupjoin', 'antijoin', 'rightjoin', 'complement',
                                                'intersection', 'mergesort', 'merge-'))]

EB('mergesort-presorted-other', lambda t: petl.mergesort(t, OTHER, key='a', presorted=True))
EB('mergesort-header-other', lambda t: petl.mergesort(t, OTHER, key='a', header=['a', 'z', 'b']))
EB('annex-3', lambda t: petl.annex(t, OTHER, t), stream=True)
EB('cat-missing', lambda t: petl.cat(t, OTHER, missing='-'), stream=True)
EB('stack-notrim-pad', lambda t: petl.stack(t, OTHER, missing='-', trim=False, pad=True), stream=True)
EB('stack-notrim-nopad', lambda t: petl.stack(t, OTHER, trim=False, pad=False), stream=True)
EB('stack-missing-trim', lambda t: petl.stack(t, OTHER, missing='-', trim=True, pad=True), stream=True)
EB('addfield-row-list', lambda t: petl.addfield(t, 'd', lambda r: list(r)), stream=True)
EB('movefield-last', lambda t: petl.movefield(t, 'a', 2), stream=True)
EB('fillright-missing', lambda t: petl.fillright(t, missing=2), stream=True)
EB('fillleft-missing', lambda t: petl.fillleft(t, missing=2), stream=True)
EB('filldown-missing', lambda t: petl.filldown(t, 'a', missing=2), stream=True)
ALL = U + B
ALL_BY_NAME = dict((e[0], e) for e in ALL)

EB('complement-presorted-L', lambda t: petl.complement(t, SAME, presorted=True), stream=True, look=2)
EB('intersection-presorted-L', lambda t: petl.intersection(t, SAME, presorted=True), stream=True, look=2)
EB('diff-presorted-L', lambda t: petl.diff(t, SAME, presorted=True), kind='pair', stream=True, look=2, members=[1])
EB('join-presorted-L', lambda t: petl.join(t, OTHER, key='a', presorted=True), stream=True, look=2)
EB('leftjoin-presorted-L', lambda t: petl.leftjoin(t, OTHER, key='a', presorted=True), stream=True, look=2)
EB('antijoin-presorted-L', lambda t: petl.antijoin(t, OTHER, key='a', presorted=True), stream=True, look=2)
EB('duplicates-presorted', lambda t: petl.duplicates(t, 'a', presorted=True), stream=True, look=2)
EB('unique-presorted', lambda t: petl.unique(t, 'a', presorted=True), stream=True, look=2)
EB('distinct-presorted', lambda t: petl.distinct(t, 'a', presorted=True), stream=True, look=2)
EB('aggregate-presorted', lambda t: petl.aggregate(t, 'a', len, presorted=True), stream=True, look=2)
EB('rowreduce-presorted', lambda t: petl.rowreduce(t, 'a', lambda k, rows: [k, len(list(rows))], header=['a', 'n'], presorted=True),
   stream=True, look=2)
EB('mergeduplicates-presorted', lambda t: petl.mergeduplicates(t, 'a', presorted=True), stream=True, look=2)
EB('groupselectfirst-presorted', lambda t: petl.groupselectfirst(t, 'a', presorted=True), stream=True, look=2)
EB('fold-presorted', lambda t: petl.fold(t, 'a', operator.add, 'b', presorted=True), stream=True, look=2)
EB('mergesort-presorted-stream', lambda t: petl.mergesort(t, SAME, key='a', presorted=True), stream=True, look=2)
ALL = U + B
ALL_BY_NAME = dict((e[0], e) for e in ALL)
