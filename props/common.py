"""Shared harness vocabulary: value domains, table builders (DESIGN 3.1/3.2)."""
import datetime
from decimal import Decimal

from engine.shim import assume


def cell(sym, name, dom):
    """A symbolic cell drawn from a named domain.

    I    unbounded int
    Id<k> int in [0,k)
    O    None | unbounded int
    Od<k> None | int in [0,k)
    M    None | int | str(len<=1)
    S    str(len<=1)
    X    one of 12 concrete representatives across all type rungs (None, bool, int, float, Decimal, bytes, str, date, datetime, tuple)
    """
    if dom == 'I':
        return sym.int(name)
    if dom.startswith('Id'):
        return sym.int(name, 0, int(dom[2:]) - 1)
    if dom == 'O':
        return sym.optint(name)
    if dom.startswith('Od'):
        return sym.optint(name, 0, int(dom[2:]) - 1)
    if dom == 'S':
        return sym.str(name, 1)
    if dom == 'M':
        k = sym.choice(name + ':kind', 3)
        if k == 0:
            return None
        if k == 1:
            return sym.int(name)
        return sym.str(name, 1)
    if dom.startswith('Md'):
        # None | small int | one of two strings : finite but covers all ranks
        d = int(dom[2:])
        k = sym.choice(name + ':kind', 3)
        if k == 0:
            return None
        if k == 1:
            return sym.int(name, 0, d - 1)
        return sym.pick(name, ['a', 'b'])
    if dom == 'X':
        # cross-type representatives: every rung of the ordering ladder, with ==-equal values of different types
        return sym.pick(name, XREPS)
    raise ValueError(dom)


def nrows(sym, name, N, exact=None):
    """Symbolic row count in [0, N] returned as a concrete int (one fork per
    value); ``exact`` pins it (case split done by the scheduler)."""
    if exact is not None:
        return exact
    return sym.choice(name, N + 1)


XREPS = [None, False, 1, 1.0, 1.5, Decimal('1'), Decimal('2'), b'a', 'a', datetime.date(2020, 1, 1),
         datetime.datetime(2020, 1, 1), (1, 'a')]

# concrete representatives for types CrossHair cannot make symbolic
REPS = {
    'float': [-1.5, 0.0, 0.5, 1.0, 1.5, 2.0, float('inf'), float('-inf')],
    'Decimal': [Decimal('-1.5'), Decimal('0'), Decimal('0.5'), Decimal('1'), Decimal('1.5'), Decimal('2')],
    'bool': [False, True],
    'int': [-2, -1, 0, 1, 2, 3],
    'date': [datetime.date(2019, 12, 31), datetime.date(2020, 1, 1), datetime.date(2020, 1, 2)],
    'datetime': [datetime.datetime(2019, 12, 31, 23, 59), datetime.datetime(2020, 1, 1, 0, 0),
                 datetime.datetime(2020, 1, 1, 0, 0, 1)],
    'time': [datetime.time(0, 0), datetime.time(12, 30), datetime.time(23, 59, 59)],
    'bytes': [b'', b'a', b'b', b'ab'],
    'str': ['', 'a', 'b', 'ab', '\xe9'],
    'None': [None],
}
