"""C10 - duplicates / unique / distinct / conflicts / isunique partition rows by
key multiplicity."""
import petl

from engine.ref import cells_eq, multiset_eq, row_eq
from engine.shim import assume, check
from engine.stubs import pickle_stub, private_tempdir

from .common import cell, nrows

PROPERTY = 'C10'
HDR = ['t', 'k', 'j']


def _keq(a, b):
    return cells_eq(a, b)         # element-wise for (compound) tuple keys


def keyed(sym, op, N, dom, compound, bs=None, countfield=None, conf='include'):
    n = nrows(sym, 'n', N)
    rows = [['T%d' % i, cell(sym, 'r%d.k' % i, dom), cell(sym, 'r%d.j' % i, dom if compound else 'Od2')]
            for i in range(n)]
    table = [HDR] + rows
    key = ('k', 'j') if compound else 'k'
    keys = [(r[1], r[2]) if compound else r[1] for r in rows]
    mult = [sum(1 for j in range(n) if _keq(keys[i], keys[j])) for i in range(n)]
    first = [not any(_keq(keys[i], keys[j]) for j in range(i)) for i in range(n)]
    tagidx = dict((r[0], i) for i, r in enumerate(rows))

    def idx_of(out, width=3):
        res = []
        for r in out:
            check(len(r) >= width and r[0] in tagidx, 'not an input row', r)
            i = tagidx[r[0]]
            check(all(cells_eq(a, b) for a, b in zip(r[:3], rows[i])), 'row changed', r, rows[i])
            check(i not in res, 'row returned twice', r)
            res.append(i)
        return res

    with pickle_stub(), private_tempdir() as td:
        kw = dict(buffersize=bs, tempdir=td)
        if op == 'partition':
            d = [tuple(r) for r in petl.duplicates(table, key, **kw)]
            u = [tuple(r) for r in petl.unique(table, key, **kw)]
            check(d[0] == tuple(HDR) and u[0] == tuple(HDR), 'headers', d[0], u[0])
            di, ui = idx_of(d[1:]), idx_of(u[1:])
            check(sorted(di) == [i for i in range(n) if mult[i] > 1], 'duplicates != rows whose key occurs more than once',
                  di, mult)
            check(sorted(ui) == [i for i in range(n) if mult[i] == 1], 'unique != rows whose key occurs once', ui, mult)
            iu = petl.isunique(table, 'k') if not compound else None
            if not compound:
                check(iu == (len(di) == 0), 'isunique != (duplicates is empty)', iu, di)
        elif op == 'distinct':
            out = [tuple(r) for r in petl.distinct(table, key, count=countfield, **kw)]
            check(out[0] == tuple(HDR) + ((countfield,) if countfield else ()), 'header', out[0])
            oi = idx_of(out[1:])
            check(sorted(oi) == [i for i in range(n) if first[i]],
                  'distinct != first row (in sorted, i.e. input, order) of every distinct key', oi, first)
            if countfield:
                for r, i in zip(out[1:], oi):
                    check(len(r) == 4 and r[3] == mult[i], 'count', r, mult[i])
                check(sum(r[3] for r in out[1:]) == n, 'counts do not add up to nrows')
        elif op == 'conflicts':
            ckw = dict(include='j') if conf in ('include', 'marker') else dict(exclude='t') if conf == 'exclude' else \
                dict(include=['j', 't'], exclude=['t'])     # exclude overrides include
            missing = None
            if conf == 'marker':
                # a caller-declared missing marker: None is then an ordinary value
                missing = 'NA'
                for r in rows:
                    if r[2] is None and sym.flag(r[0] + '.na'):
                        r[2] = 'NA'
            out = [tuple(r) for r in petl.conflicts(table, 'k', missing=missing, **dict(kw, **ckw))]
            check(out[0] == tuple(HDR), 'header', out[0])
            oi = idx_of(out[1:])

            def disagree(a, b):
                x, y = rows[a][2], rows[b][2]
                if missing is None:
                    return x is not None and y is not None and x != y
                # with a declared marker None is an ordinary value
                return x != missing and y != missing and not cells_eq(x, y)
            for i in oi:
                check(mult[i] > 1, 'conflicts returned a row of a non-duplicate group', rows[i])
                members = [m for m in range(n) if _keq(keys[m], keys[i])]
                check(any(disagree(a, b) for a in members for b in members),
                      'conflicts returned a row of a group that agrees on all non-missing values', rows[i], members)
            for i in range(n):
                members = [m for m in range(n) if _keq(keys[m], keys[i])]
                if len(members) == 2 and disagree(members[0], members[1]):
                    check(i in oi, 'a two-member group that disagrees is missing from conflicts', rows[i])
        else:
            raise ValueError(op)


def index0(sym, N, dom):
    """key given as the integer 0 (first field) - not a falsy 'no key'."""
    n = nrows(sym, 'n', N)
    rows = [[cell(sym, 'r%d.k' % i, dom), 'T%d' % i] for i in range(n)]
    table = [['k', 't']] + rows
    mult = [sum(1 for j in range(n) if cells_eq(rows[i][0], rows[j][0])) for i in range(n)]
    first = [not any(cells_eq(rows[i][0], rows[j][0]) for j in range(i)) for i in range(n)]
    with pickle_stub(), private_tempdir() as td:
        for key in (0, (0,)):
            d = sorted(r[1] for r in list(petl.duplicates(table, key, tempdir=td))[1:])
            u = sorted(r[1] for r in list(petl.unique(table, key, tempdir=td))[1:])
            x = sorted(r[1] for r in list(petl.distinct(table, key, tempdir=td))[1:])
            check(d == sorted('T%d' % i for i in range(n) if mult[i] > 1), 'duplicates(key=0)', key, rows, d)
            check(u == sorted('T%d' % i for i in range(n) if mult[i] == 1), 'unique(key=0)', key, rows, u)
            check(x == sorted('T%d' % i for i in range(n) if first[i]), 'distinct(key=0)', key, rows, x)
        check(petl.isunique(table, 0) == all(m == 1 for m in mult), 'isunique(0)')
    coll = [[sym.pick('c%d' % i, [-1, -2, 0]), 'T%d' % i] for i in range(min(n, 2))]     # hash(-1) == hash(-2)
    if len(coll) == 2:
        check(petl.isunique([['k', 't']] + coll, 'k') == (coll[0][0] != coll[1][0]), 'isunique on hash-colliding keys', coll)


def wholerow(sym, N, ncols, dom, bs=None):
    """key=None: the whole row is the key (no tag cell possible): multiset oracle."""
    n = nrows(sym, 'n', N)
    hdr = ['x', 'y'][:ncols]
    rows = [[cell(sym, 'r%d.%d' % (i, c), dom) for c in range(ncols)] for i in range(n)]
    table = [hdr] + rows
    mult = [sum(1 for j in range(n) if row_eq(rows[i], rows[j])) for i in range(n)]
    first = [not any(row_eq(rows[i], rows[j]) for j in range(i)) for i in range(n)]
    with pickle_stub(), private_tempdir() as td:
        kw = dict(buffersize=bs, tempdir=td)
        d = [tuple(r) for r in petl.duplicates(table, **kw)]
        u = [tuple(r) for r in petl.unique(table, **kw)]
        x = [tuple(r) for r in petl.distinct(table, **kw)]
        xc = [tuple(r) for r in petl.distinct(table, count='n', **kw)]
    check(d[0] == tuple(hdr) and u[0] == tuple(hdr) and x[0] == tuple(hdr) and xc[0] == tuple(hdr) + ('n',), 'headers')
    check(multiset_eq(d[1:], [tuple(rows[i]) for i in range(n) if mult[i] > 1]), 'duplicates (whole row)', rows, d)
    check(multiset_eq(u[1:], [tuple(rows[i]) for i in range(n) if mult[i] == 1]), 'unique (whole row)', rows, u)
    check(multiset_eq(x[1:], [tuple(rows[i]) for i in range(n) if first[i]]), 'distinct (whole row)', rows, x)
    check(multiset_eq(xc[1:], [tuple(rows[i]) + (mult[i],) for i in range(n) if first[i]]), 'distinct count (whole row)',
          rows, xc)
    check(sum(r[-1] for r in xc[1:]) == n, 'counts do not add up to nrows')


# --------------------------------------------------------------------------
BOUNDS = {
    'quick': 'n in [0,3] rows (symbolic); keys None|int, unbounded int, None|int|str, compound (None|int in [0,2))^2 n<=3; '
             'whole-row keys with 1-2 columns; buffersize {None,1,2}; count column on/off; conflicts with include/exclude and a declared '
             'missing marker; key given as index 0; hash-colliding keys for isunique; cross-type representative keys',
    'thorough': 'n in [0,4] (run lengths 1, 2, >2 and two runs of 2)',
}
OUTSIDE = 'ragged rows (statement: rectangular); more rows than the bound; presorted=True (C11)'
STUBS = ['PickleStub (buffersize jobs)', 'private temp dir per path']
ASSUMPTIONS = ['isunique / whole-row variants: cells over small domains (C-level set hashing realises symbolic ints)',
               'conflicts: checked for soundness (only rows of duplicate groups that disagree on a non-missing included '
               'field) and for completeness on two-member groups; the statement gives no completeness for larger groups']
RULE = 'Jobs case-split (operator, key domain, compound, buffersize, count/conflict arguments).'


def jobs(tier):
    q = tier == 'quick'
    N = 3 if q else 4
    B = 150 if q else 1200
    out = []

    def add(op, n, dom, compound, **kw):
        name = '%s/n<=%d/%s/compound=%d' % (op, n, dom, compound) + ''.join('/%s=%s' % kv for kv in sorted(kw.items()))
        p = dict(op=op, N=n, dom=dom, compound=compound)
        p.update(kw)
        out.append(dict(name=name, func='keyed', params=p, budget=B))

    for bs in (None, 1, 2):
        add('partition', N, 'Od3', False, bs=bs)
        add('distinct', N, 'O', False, bs=bs)
        add('distinct', N, 'O', False, bs=bs, countfield='n')
    add('partition', N, 'Md2', False)
    add('partition', 2 if q else 3, 'X', False)
    add('distinct', 2 if q else 3, 'X', False, countfield='n')
    add('partition', N, 'Od2', True)
    add('distinct', N, 'I', False, countfield='n')
    add('distinct', N, 'M', False)
    add('distinct', N, 'M', False, countfield='n')
    add('distinct', N, 'Od2', True)
    add('distinct', N, 'Od2', True, countfield='n')
    for conf in ('include', 'exclude', 'both', 'marker'):
        add('conflicts', N, 'O', False, conf=conf)
    add('conflicts', N, 'O', False, conf='include', bs=1)
    out.append(dict(name='index0/n<=%d/O' % N, func='index0', params=dict(N=N, dom='O'), budget=B))
    for (n, nc, dom, bs) in ([(3, 1, 'Od2', None), (3, 1, 'Md2', 1), (2, 2, 'Od2', None), (3, 2, 'Id2', 1)] if q else
                             [(4, 1, 'Od2', None), (4, 1, 'Md2', 1), (3, 2, 'Od2', None), (4, 2, 'Id2', 1), (3, 2, 'Id2', 2)]):
        out.append(dict(name='wholerow/n<=%d/cols=%d/%s/bs=%s' % (n, nc, dom, bs), func='wholerow',
                        params=dict(N=n, ncols=nc, dom=dom, bs=bs), budget=B))
    return out
