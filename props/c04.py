"""C04 - mixed-type ordering is one consistent total preorder."""
import petl
from petl.comparison import Comparable

from engine.ref import ref_eq, ref_lt
from engine.shim import assume, check
from engine.stubs import pickle_stub, private_tempdir

from .common import REPS, cell, nrows

PROPERTY = 'C04'

TYPES = ['None', 'bool', 'int', 'float', 'Decimal', 'bytes', 'str', 'date', 'datetime', 'time', 'seq']
NUMERIC = ('bool', 'int', 'float', 'Decimal')


REPS_Q = {
    'float': [-1.5, 0.0, 1.0, float('inf')],
    'Decimal': [REPS['Decimal'][0], REPS['Decimal'][1], REPS['Decimal'][3], REPS['Decimal'][4]],
    'int': [-2, 0, 1, 2],
    'bool': [False, True],
}


def mkval(sym, name, typ, reps_numeric, strlen):
    quick = strlen == 1
    if typ == 'None':
        return None
    if typ in NUMERIC and (reps_numeric or typ == 'Decimal'):
        return sym.pick(name, (REPS_Q if quick else REPS)[typ])
    if typ == 'bool':
        return sym.flag(name)
    if typ == 'int':
        return sym.int(name)
    if typ == 'float':
        return sym.float(name)
    if typ == 'str':
        return sym.str(name, strlen)
    if typ == 'bytes':
        return sym.enumstr(name, strlen, 'ab').encode('ascii')
    if typ in ('date', 'datetime', 'time'):
        return sym.pick(name, REPS[typ])
    if typ == 'seq1':
        return tuple([cell(sym, name + '.0', 'O')][:sym.choice(name + '.len', 2)])
    if typ == 'seq':
        # list or tuple of two cells from None | int | str(<=1)
        a = cell(sym, name + '.0', 'O' if quick else 'M')
        b = cell(sym, name + '.1', 'O' if quick else 'M')
        ln = sym.choice(name + '.len', 3)           # prefixes compare by length
        items = [a, b][:ln]
        return list(items) if sym.flag(name + '.islist') else tuple(items)
    raise ValueError(typ)


def _native_eq_applicable(a, b):
    # list vs tuple with equal elements: equivalent under the element-wise rule
    # although native == is False (the statement's two clauses conflict there;
    # the element-wise clause is taken)
    return not (isinstance(a, (list, tuple)) and isinstance(b, (list, tuple)) and type(a) is not type(b))


def laws(sym, t1, t2s, t3s, strlen=1):
    """All laws on a triple whose first type is t1; the other two types are
    solver-chosen from t2s / t3s."""
    t2 = sym.pick('type2', t2s)
    t3 = sym.pick('type3', t3s)
    # sequences hold symbolic ints: count them as 'int' for the mixing rule
    nnum = len(set(('int' if t.startswith('seq') else t) for t in (t1, t2, t3) if t in NUMERIC or t.startswith('seq')))
    reps = nnum >= 2
    a = mkval(sym, 'a', t1, reps, strlen)
    b = mkval(sym, 'b', t2, reps, strlen)
    c = mkval(sym, 'c', t3, reps, strlen)
    A, B, C = Comparable(a), Comparable(b), Comparable(c)
    for (x, y, X, Y) in ((a, b, A, B), (b, c, B, C), (a, c, A, C), (b, a, B, A)):
        lt, gt, eq = bool(X < Y), bool(Y < X), bool(X == Y)
        check(int(lt) + int(gt) + int(eq) == 1, 'trichotomy: not exactly one of x<y, y<x, x==y', x, y, lt, gt, eq)
        check(bool(X <= Y) == (lt or eq), '<= differs from (< or ==)', x, y)
        check(bool(X > Y) == gt, '> differs from swapped <', x, y)
        check(bool(X >= Y) == (not lt), '>= differs from not <', x, y)
        check(bool(X != Y) == (not eq) if hasattr(Comparable, '__ne__') else True, '!= differs from not ==', x, y)
        check(lt == ref_lt(x, y), 'order differs from the documented ladder', x, y, lt)
        if _native_eq_applicable(x, y):
            check(eq == bool(x == y), 'equivalence differs from native ==', x, y, eq)
        # the consumers (comparison selectors, range selectors) compare a wrapped value with a *raw* cell, in
        # either operand position (reflected operators): every such comparison has to give the wrapped-vs-wrapped answer
        check(bool(X < y) == lt, 'wrapped < raw differs from wrapped < wrapped', x, y, lt)
        check(bool(x < Y) == lt, 'raw < wrapped (reflected) differs from wrapped < wrapped', x, y, lt)
        check(bool(X <= y) == (lt or eq), 'wrapped <= raw differs from wrapped <= wrapped', x, y)
        check(bool(x <= Y) == (lt or eq), 'raw <= wrapped (reflected) differs from wrapped <= wrapped', x, y)
        check(bool(X > y) == gt, 'wrapped > raw differs from wrapped > wrapped', x, y)
        check(bool(x > Y) == gt, 'raw > wrapped (reflected) differs from wrapped > wrapped', x, y)
        check(bool(X >= y) == (not lt), 'wrapped >= raw differs from wrapped >= wrapped', x, y)
        check(bool(x >= Y) == (not lt), 'raw >= wrapped (reflected) differs from wrapped >= wrapped', x, y)
        check(bool(X == y) == eq, 'wrapped == raw differs from wrapped == wrapped', x, y, eq)
    check(not bool(A < A), 'irreflexivity', a)
    ab, bc, ac = bool(A < B), bool(B < C), bool(A < C)
    if ab and bc:
        check(ac, 'transitivity of <', a, b, c)
    if bool(A == B) and bc:
        check(ac, 'a==b and b<c but not a<c', a, b, c)
    if ab and bool(B == C):
        check(ac, 'a<b and b==c but not a<c', a, b, c)
    if bool(A == B) and bool(B == C):
        check(bool(A == C), 'transitivity of ==', a, b, c)


def issorted_consumer(sym, N, dom, keyed):
    """issorted uses the same ordering: its verdict equals reference
    sortedness, and sort() output is always issorted."""
    n = nrows(sym, 'n', N)
    ks = [cell(sym, 'k%d' % i, dom) for i in range(n)]
    reverse = sym.flag('reverse')
    strict = sym.flag('strict')
    if keyed:
        table = [['k', 't']] + [[k, 'T%d' % i] for i, k in enumerate(ks)]
        got = petl.issorted(table, key='k', reverse=reverse, strict=strict)
    else:
        table = [['k']] + [[k] for k in ks]
        got = petl.issorted(table, reverse=reverse, strict=strict)
    exp = True
    for i in range(n - 1):
        a, b = (ks[i + 1], ks[i]) if reverse else (ks[i], ks[i + 1])
        # non-strict: a <= b ; strict: a < b
        if strict:
            exp = exp and ref_lt(a, b)
        else:
            exp = exp and not ref_lt(b, a)
    check(bool(got) == bool(exp), 'issorted differs from the reference order', ks, reverse, strict, got)
    with pickle_stub(), private_tempdir() as td:
        s = petl.sort(table, key='k' if keyed else None, reverse=reverse, tempdir=td)
        check(petl.issorted(s, key='k' if keyed else None, reverse=reverse), 'sort() output is not issorted()', ks)


def selector_consumer(sym, N, dom):
    """selectlt / selectge partition the rows consistently with the ordering."""
    n = nrows(sym, 'n', N)
    if dom == 'seq':
        # list / tuple cells and reference values (<= 2 items from None | int | str), every list/tuple combination
        ks = [mkval(sym, 'k%d' % i, 'seq', False, 1) for i in range(n)]
        v = mkval(sym, 'v', 'seq', False, 1)
    else:
        ks = [cell(sym, 'k%d' % i, dom) for i in range(n)]
        v = cell(sym, 'v', dom)
    table = [['t', 'k']] + [['T%d' % i, k] for i, k in enumerate(ks)]
    lt = [r[0] for r in petl.selectlt(table, 'k', v)][1:]
    ge = [r[0] for r in petl.selectge(table, 'k', v)][1:]
    gt = [r[0] for r in petl.selectgt(table, 'k', v)][1:]
    le = [r[0] for r in petl.selectle(table, 'k', v)][1:]
    check(lt == ['T%d' % i for i in range(n) if ref_lt(ks[i], v)], 'selectlt', ks, v, lt)
    check(ge == ['T%d' % i for i in range(n) if not ref_lt(ks[i], v)], 'selectge', ks, v, ge)
    check(gt == ['T%d' % i for i in range(n) if ref_lt(v, ks[i])], 'selectgt', ks, v, gt)
    check(le == ['T%d' % i for i in range(n) if not ref_lt(v, ks[i])], 'selectle', ks, v, le)


# --------------------------------------------------------------------------
BOUNDS = {
    'quick': 'all ordered type triples over {None,bool,int,float,Decimal,bytes,str,date,datetime,time,list/tuple}; '
             'int/bool/float/str symbolic (str length <= 1); bytes over {a,b} length <= 1; sequences of <= 2 cells from '
             'None|int|str; Decimal/date/datetime/time and every operand of a triple mixing numeric types from a fixed '
             'list of representatives (finite sweep, exhausted); every pair also compared wrapped-vs-raw in both operand positions; '
             'issorted/selectors over <= 3 rows; selectlt/le/gt/ge over list/tuple cells and reference values (1 row quick, 2 thorough)',
    'thorough': 'as quick with str/bytes length <= 2',
}
OUTSIDE = ('NaN; timezone-aware datetimes; user-defined classes; Decimal/date/time values beyond the representatives; '
           'list-vs-tuple pairs are exempt from the "agrees with ==" law only (element-wise clause wins)')
STUBS = []
ASSUMPTIONS = ['native order within Decimal/date/datetime/time is CPython\'s (representatives only)',
               'triples that mix numeric types use representatives for every numeric operand (symbolic int vs float '
               'comparisons do not terminate in z3)']
RULE = 'One job per (first type, second type) pair (quick: per first type); remaining types solver-chosen.'


def jobs(tier):
    q = tier == 'quick'
    out = []
    # one job per ordered pair of types; the third type is solver-chosen.
    # quick: third type over one representative of each rung of the ladder
    t3q = ['None', 'int', 'Decimal', 'str', 'date']
    for t1 in TYPES:
        for t2 in TYPES:
            if q and 'seq' in (t1, t2):
                for t3 in ['int', 'str', 'seq1' if t1 == t2 == 'seq' else 'seq']:   # split: sequences fork most
                    out.append(dict(name='laws/%s/%s/%s' % (t1, t2, t3), func='laws',
                                    params=dict(t1=t1, t2s=[t2], t3s=[t3], strlen=1),
                                    budget=1200 if [t1, t2, t3].count('seq') >= 2 else 360))
                continue
            out.append(dict(name='laws/%s/%s' % (t1, t2), func='laws',
                            params=dict(t1=t1, t2s=[t2], t3s=t3q if q else TYPES, strlen=1 if q else 2),
                            budget=360 if q else 900))
    N = 3 if q else 4
    for dom in ('M', 'O'):
        for keyed in (True, False):
            out.append(dict(name='issorted/%s/keyed=%d' % (dom, keyed), func='issorted_consumer',
                            params=dict(N=N if dom == 'O' else 3, dom=dom, keyed=keyed), budget=240 if q else 900))
    # consumers: merge joins on mixed-type keys (harnesses of C06)
    for op in ('join', 'leftjoin', 'outerjoin', 'lookupjoin'):
        for (a, b) in ((2, 1), (1, 2)):
            out.append(dict(name='consumer-%s/%dx%d/M' % (op, a, b), module='props.c06', func='join_op',
                            params=dict(op=op, NL=a, NR=b, dom='M'), budget=240 if q else 900))
    for (a, b) in ((2, 1), (1, 2)):
        out.append(dict(name='consumer-antijoin/%dx%d/M' % (a, b), module='props.c06', func='antijoin_op',
                        params=dict(NL=a, NR=b, dom='M'), budget=240 if q else 900))
    # consumers: sort() with and without chunk files on mixed-type keys (harness of C05)
    for dom in ('M', 'X'):
        for bs in (None, 1):
            out.append(dict(name='consumer-sort/%s/bs=%s' % (dom, bs), module='props.c05', func='sort_cfg',
                            params=dict(N=3 if dom == 'M' or bs is None else 2, keyform='single', dom=dom, ragged=False, bs=bs,
                                        reverse=False, cache=True), budget=240 if q else 900))
    out.append(dict(name='selectors/M', func='selector_consumer', params=dict(N=2 if q else 3, dom='M'),
                    budget=240 if q else 900))
    out.append(dict(name='selectors/seq', func='selector_consumer', params=dict(N=1 if q else 2, dom='seq'),
                    budget=240 if q else 900))
    return out
