"""C09 - grouping and aggregation conserve rows: each row in exactly one
group, groups in ascending key order, members in input order."""
import operator
from collections import OrderedDict

import petl
from petl.transform.reductions import Conflict

from engine.ref import cells_eq, ref_lt
from engine.shim import assume, check
from engine.stubs import pickle_stub, private_tempdir

from .common import cell, nrows

PROPERTY = 'C09'

HDR = ['t', 'k', 'j', 'v']


def _rows(sym, n, dom, compound, prefix='r', vdom='I'):
    rows = []
    for i in range(n):
        rows.append(['%s%d' % (prefix, i), cell(sym, '%s%d.k' % (prefix, i), dom),
                     cell(sym, '%s%d.j' % (prefix, i), dom) if compound else 0,
                     cell(sym, '%s%d.v' % (prefix, i), vdom)])
    return rows


def _key(row, compound):
    return (row[1], row[2]) if compound else row[1]


def _keq(a, b, compound):
    if compound:
        return cells_eq(a[0], b[0]) and cells_eq(a[1], b[1])
    return cells_eq(a, b)


def ref_groups(rows, compound):
    """groups (lists of row indices, input order) in first-occurrence order"""
    groups = []
    for i, r in enumerate(rows):
        for g in groups:
            if _keq(_key(rows[g[0]], compound), _key(r, compound), compound):
                g.append(i)
                break
        else:
            groups.append([i])
    return groups


def _match_groups(outkeys, rows, groups, compound, what):
    """outkeys: key of each output row, in output order.  Checks one output row
    per group, ascending key order; returns for each output row its group."""
    check(len(outkeys) == len(groups), what + ': number of groups', len(outkeys), len(groups))
    res = []
    used = []
    for k in outkeys:
        hit = None
        for gi, g in enumerate(groups):
            if gi not in used and _keq(k, _key(rows[g[0]], compound), compound):
                hit = gi
                break
        check(hit is not None, what + ': output key matches no (remaining) group', k)
        used.append(hit)
        res.append(groups[hit])
    for x in range(len(outkeys) - 1):
        check(ref_lt(outkeys[x], outkeys[x + 1]), what + ': groups not in ascending key order',
              outkeys[x], outkeys[x + 1])
    return res


def _tags(rows, g):
    return [rows[i][0] for i in g]


def group_op(sym, op, N, dom, compound=False, bs=None, presorted=False):
    n = nrows(sym, 'n', N)
    # values that end up in a C-level set (mergeduplicates) range over {0,1}
    rows = _rows(sym, n, dom, compound, vdom='Id2' if op == 'mergeduplicates' else 'I')
    if presorted:
        for x in range(n - 1):
            assume(not ref_lt(_key(rows[x + 1], compound), _key(rows[x], compound)))
    table = [HDR] + rows
    key = ('k', 'j') if compound else 'k'
    groups = ref_groups(rows, compound)
    tagidx = dict((r[0], i) for i, r in enumerate(rows))

    def okey(r):        # key cells of an output row that starts with the key
        return (r[0], r[1]) if compound else r[0]
    K = 2 if compound else 1

    with pickle_stub(), private_tempdir() as td:
        kw = dict(presorted=presorted, buffersize=bs, tempdir=td)
        if op == 'aggregate-len':
            out = [tuple(r) for r in petl.aggregate(table, key, len, **kw)]
            check(out[0] == (tuple(key) if compound else (key,)) + ('value',), 'header', out[0])
            gs = _match_groups([okey(r) for r in out[1:]], rows, groups, compound, op)
            for r, g in zip(out[1:], gs):
                check(r[K] == len(g), 'count', r, g)
            check(sum(r[K] for r in out[1:]) == n, 'counts do not add up to nrows')
        elif op == 'aggregate-sum':
            out = [tuple(r) for r in petl.aggregate(table, key, sum, 'v', **kw)]
            gs = _match_groups([okey(r) for r in out[1:]], rows, groups, compound, op)
            for r, g in zip(out[1:], gs):
                check(r[K] == sum(rows[i][3] for i in g), 'sum', r, g)
            check(sum(r[K] for r in out[1:]) == sum(r[3] for r in rows), 'group sums do not add up to overall sum')
        elif op == 'aggregate-list':
            out = [tuple(r) for r in petl.aggregate(table, key, list, 't', **kw)]
            gs = _match_groups([okey(r) for r in out[1:]], rows, groups, compound, op)
            for r, g in zip(out[1:], gs):
                check(list(r[K]) == _tags(rows, g), 'members / input order', r, g)
        elif op in ('aggregate-multi-list', 'aggregate-multi-dict', 'aggregate-multi-setitem'):
            if op == 'aggregate-multi-list':
                spec = [('n', len), ('s', 'v', sum), ('ts', 't', list), ('tt', 't'), ('tv', ('t', 'v'), list)]
                view = petl.aggregate(table, key, spec, **kw)
            elif op == 'aggregate-multi-dict':
                spec = OrderedDict([('n', len), ('s', ('v', sum)), ('ts', ('t', list)), ('tt', 't'),
                                    ('tv', (('t', 'v'), list))])
                view = petl.aggregate(table, key, spec, **kw)
            else:
                view = petl.aggregate(table, key, **kw)
                view['n'] = len
                view['s'] = 'v', sum
                view['ts'] = 't', list
                view['tt'] = 't'
                view['tv'] = ('t', 'v'), list
            out = [tuple(r) for r in view]
            check(out[0] == (tuple(key) if compound else (key,)) + ('n', 's', 'ts', 'tt', 'tv'), 'header', out[0])
            gs = _match_groups([okey(r) for r in out[1:]], rows, groups, compound, op)
            for r, g in zip(out[1:], gs):
                check(r[K] == len(g), 'count', r, g)
                check(r[K + 1] == sum(rows[i][3] for i in g), 'sum', r, g)
                check(list(r[K + 2]) == _tags(rows, g) and list(r[K + 3]) == _tags(rows, g), 'members', r, g)
                check([x[0] for x in r[K + 4]] == _tags(rows, g) and
                      all(x[1] == rows[i][3] for x, i in zip(r[K + 4], g)), 'multi-field values', r, g)
        elif op == 'aggregate-none':
            out = [tuple(r) for r in petl.aggregate(table, None, len)]
            check(out == [('value',), (n,)], 'key=None len', out)
            out = [tuple(r) for r in petl.aggregate(table, None, sum, 'v')]
            check(out[0] == ('value',) and len(out) == 2 and out[1][0] == sum(r[3] for r in rows), 'key=None sum', out)
            out = [tuple(r) for r in petl.aggregate(table, None, list, 't', field='tags')]
            check(out[0] == ('tags',) and len(out) == 2 and list(out[1][0]) == [r[0] for r in rows], 'key=None list', out)
            if n > 0:
                out = [tuple(r) for r in petl.aggregate(table, None, [('n', len), ('ts', 't', list)])]
                check(out[0] == ('n', 'ts') and len(out) == 2 and out[1][0] == n and
                      list(out[1][1]) == [r[0] for r in rows], 'key=None multi', out)
        elif op == 'rowreduce':
            def reducer(k, rws):
                rws = list(rws)
                return [k, [r[0] for r in rws], sum(r['v'] for r in rws)]
            out = [tuple(r) for r in petl.rowreduce(table, key, reducer, header=['key', 'ts', 's'], **kw)]
            check(out[0] == ('key', 'ts', 's'), 'header', out[0])
            gs = _match_groups([r[0] for r in out[1:]], rows, groups, compound, op)
            for r, g in zip(out[1:], gs):
                check(list(r[1]) == _tags(rows, g), 'members / input order', r, g)
                check(r[2] == sum(rows[i][3] for i in g), 'sum', r, g)
        elif op == 'rowgroupmap':
            def mapper(k, rws):
                rws = list(rws)
                for pos, r in enumerate(rws):
                    yield (k, r[0], pos, len(rws))
            out = [tuple(r) for r in petl.rowgroupmap(table, key, mapper, header=['key', 't', 'pos', 'n'], **kw)]
            check(out[0] == ('key', 't', 'pos', 'n'), 'header', out[0])
            # regroup output by consecutive key
            okeys, members = [], []
            for r in out[1:]:
                if r[2] == 0:
                    okeys.append(r[0])
                    members.append([])
                check(len(members) > 0, 'first row has pos != 0', r)
                members[-1].append(r)
            gs = _match_groups(okeys, rows, groups, compound, op)
            for ms, g in zip(members, gs):
                check([m[1] for m in ms] == _tags(rows, g) and all(m[3] == len(g) for m in ms), 'members', ms, g)
        elif op == 'fold':
            out = [tuple(r) for r in petl.fold(table, key, operator.add, 'v', **kw)]
            check(out[0] == ('key', 'value'), 'header', out[0])
            gs = _match_groups([r[0] for r in out[1:]], rows, groups, compound, op)
            for r, g in zip(out[1:], gs):
                check(r[1] == sum(rows[i][3] for i in g), 'fold sum', r, g)
        elif op in ('groupselectfirst', 'groupselectlast', 'groupselectmin', 'groupselectmax'):
            if op in ('groupselectfirst', 'groupselectlast'):
                out = [tuple(r) for r in getattr(petl, op)(table, key, **kw)]
            else:
                out = [tuple(r) for r in getattr(petl, op)(table, key, 'v', **kw)]
            check(out[0] == tuple(HDR), 'header', out[0])
            for r in out[1:]:
                check(len(r) == 4 and r[0] in tagidx, 'not an input row', r)
            gs = _match_groups([_key(r, compound) for r in out[1:]], rows, groups, compound, op)
            for r, g in zip(out[1:], gs):
                i = tagidx[r[0]]
                check(i in g, 'selected row is not a member of its group', r, g)
                check(all(cells_eq(a, b) for a, b in zip(r, rows[i])), 'row changed', r, rows[i])
                if op == 'groupselectfirst':
                    check(i == g[0], 'not the first of its group', r, g)
                elif op == 'groupselectlast':
                    check(i == g[-1], 'not the last of its group', r, g)
                elif op == 'groupselectmin':
                    check(all(rows[i][3] <= rows[m][3] for m in g), 'not a minimum of its group', r, g)
                else:
                    check(all(rows[i][3] >= rows[m][3] for m in g), 'not a maximum of its group', r, g)
        elif op == 'mergeduplicates':
            marker = None
            if n > 0 and sym.flag('marker'):
                # a declared missing marker, equal to but not the same object as the cells holding it
                marker = ''.join(['N', 'A'])
                for r in rows:
                    if r[3] == 0:
                        r[3] = ''.join(['N', 'A'])
                table = [HDR] + rows
                kw['missing'] = marker
            out = [tuple(r) for r in petl.mergeduplicates(table, key, **kw)]
            exp_hdr = (('k', 'j') if compound else ('k',)) + ('t',) + (() if compound else ('j',)) + ('v',)
            check(out[0] == exp_hdr, 'header', out[0], exp_hdr)
            gs = _match_groups([okey(r) for r in out[1:]], rows, groups, compound, op)
            for r, g in zip(out[1:], gs):
                tcell = r[K]
                if len(g) == 1:
                    check(tcell == rows[g[0]][0], 'single member', r, g)
                else:
                    check(isinstance(tcell, Conflict) and sorted(tcell) == sorted(_tags(rows, g)), 'members', r, g)
                vcell = r[-1]
                vs = [rows[i][3] for i in g if not (marker is not None and rows[i][3] == marker)]
                if not vs:
                    check(vcell == marker, 'all values missing must merge to the marker', r)
                elif all(v == vs[0] for v in vs):
                    check(vcell == vs[0], 'agreeing values must merge to the value', r, vs)
                else:
                    check(isinstance(vcell, Conflict), 'disagreeing values must give a Conflict', r, vs)
                    for v in vs:
                        check(any(v == c for c in vcell), 'Conflict misses a value', r, vs)
                    for c in vcell:
                        check(any(v == c for v in vs), 'Conflict has a foreign value', r, vs)
        elif op == 'groupcountdistinctvalues':
            rows2 = [[r[0], r[1], r[2], sym.int('w%d' % i, 0, 1)] for i, r in enumerate(rows)]
            out = [tuple(r) for r in petl.groupcountdistinctvalues([HDR] + rows2, key, 'v')]
            gs = _match_groups([okey(r) for r in out[1:]], rows2, groups, compound, op)
            for r, g in zip(out[1:], gs):
                vs = [rows2[i][3] for i in g]
                nd = 1 if all(v == vs[0] for v in vs) else 2
                check(r[K] == nd, 'distinct count', r, vs)
        else:
            raise ValueError(op)


def merge_op(sym, N1, N2, dom, bs=None):
    """merge(t1, t2, key) groups the rows of both tables by key."""
    n1, n2 = nrows(sym, 'n1', N1), nrows(sym, 'n2', N2)
    a = _rows(sym, n1, dom, False, 'a', vdom='Id2')
    b = _rows(sym, n2, dom, False, 'b', vdom='Id2')
    rows = a + b
    groups = ref_groups(rows, False)
    with pickle_stub(), private_tempdir() as td:
        out = [tuple(r) for r in petl.merge([HDR] + a, [HDR] + b, key='k', buffersize=bs, tempdir=td)]
    check(out[0] == ('k', 't', 'j', 'v'), 'header', out[0])
    gs = _match_groups([r[0] for r in out[1:]], rows, groups, False, 'merge')
    for r, g in zip(out[1:], gs):
        if len(g) == 1:
            check(r[1] == rows[g[0]][0], 'single member', r, g)
        else:
            check(isinstance(r[1], Conflict) and sorted(r[1]) == sorted(_tags(rows, g)), 'members', r, g)


def counts_op(sym, N, dom, compound):
    """valuecounts / valuecounter: counts add up to nrows, one entry per
    distinct value with its multiplicity."""
    n = nrows(sym, 'n', N)
    rows = _rows(sym, n, dom, compound)
    for r in rows:
        r[3] = 0
    table = [HDR] + rows
    groups = ref_groups(rows, compound)
    flds = ('k', 'j') if compound else ('k',)
    c = petl.valuecounter(table, *flds)
    check(sum(c.values()) == n, 'valuecounter counts do not add up to nrows', dict(c), n)
    check(len(c) == len(groups), 'valuecounter: number of distinct values', dict(c), groups)
    for g in groups:
        k = _key(rows[g[0]], compound)
        check(c[k] == len(g), 'valuecounter multiplicity', k, len(g))
    out = [tuple(r) for r in petl.valuecounts(table, *flds)]
    check(out[0] == flds + ('count', 'frequency'), 'valuecounts header', out[0])
    K = len(flds)
    check(len(out) - 1 == len(groups), 'valuecounts: number of rows', out, groups)
    check(sum(r[K] for r in out[1:]) == n, 'valuecounts counts do not add up to nrows', out)
    used = []
    for r in out[1:]:
        k = (r[0], r[1]) if compound else r[0]
        hit = None
        for gi, g in enumerate(groups):
            if gi not in used and _keq(k, _key(rows[g[0]], compound), compound):
                hit = gi
                break
        check(hit is not None, 'valuecounts: value matches no group', r)
        used.append(hit)
        check(r[K] == len(groups[hit]), 'valuecounts multiplicity', r)
        check(r[K + 1] == float(len(groups[hit])) / n, 'valuecounts frequency', r)
    for x in range(1, len(out) - 1):
        check(out[x][K] >= out[x + 1][K], 'valuecounts not in descending count order', out)


# --------------------------------------------------------------------------
BOUNDS = {
    'quick': 'n in [0,3] rows (symbolic); keys None|int, None|int|str, unbounded int, compound (None|int in [0,2))^2 with n<=2; '
             'values unbounded int; buffersize {None,1,2}; presorted on key-sorted input; merge of 2 tables (<=2 rows each); cross-type '
             'representative keys; mergeduplicates with a declared missing marker; an aggregate after a failed pass',
    'thorough': 'n in [0,4]; compound n<=3; merge 2x(<=3)',
}
OUTSIDE = 'more rows than the bound; float values (sums then depend on association order); user-supplied aggregation functions other than len/sum/list'
STUBS = ['PickleStub (buffersize jobs)', 'private temp dir per path']
ASSUMPTIONS = ['presorted=True: input assumed sorted by key under the reference order',
               'valuecounts/valuecounter: keys over small domains (C-level Counter hashing realises symbolic ints)']
RULE = 'Jobs case-split (operator, domain, compound, buffersize, presorted); row count, keys, values symbolic.'

GROUP_OPS = ['aggregate-len', 'aggregate-sum', 'aggregate-list', 'aggregate-multi-list', 'aggregate-multi-dict',
             'aggregate-multi-setitem', 'rowreduce', 'rowgroupmap', 'fold', 'groupselectfirst', 'groupselectlast',
             'groupselectmin', 'groupselectmax', 'mergeduplicates', 'groupcountdistinctvalues']


def jobs(tier):
    q = tier == 'quick'
    N = 3 if q else 4
    out = []
    B = 150 if q else 1200

    def add(op, n, dom, **kw):
        name = '%s/n<=%d/%s' % (op, n, dom) + ''.join('/%s=%s' % kv for kv in sorted(kw.items()))
        p = dict(op=op, N=n, dom=dom)
        p.update(kw)
        out.append(dict(name=name, func='group_op', params=p, budget=B))

    for op in GROUP_OPS:
        presortable = op != 'groupcountdistinctvalues'
        add(op, N, 'O')
        if op in ('aggregate-list', 'rowreduce', 'groupselectlast', 'fold') or (not q and op != 'mergeduplicates'):
            add(op, 3 if (op == 'aggregate-list' or not q) else 2, 'X')
        if op in ('aggregate-len', 'aggregate-list', 'rowreduce', 'groupselectfirst', 'groupselectmin', 'mergeduplicates',
                  'fold') or not q:
            add(op, N, 'M' if N == 3 else 'Md2')
        if op != 'groupcountdistinctvalues':     # documented for a single key field only
            add(op, N - 1, 'Od2', compound=True)
        if presortable:
            add(op, N, 'O', bs=1)
            if not q or op in ('aggregate-list', 'groupselectlast', 'groupselectmin', 'rowgroupmap'):
                add(op, N, 'I', bs=2)
            add(op, N, 'O', presorted=True)
    add('aggregate-none', N, 'O')
    for (a, b) in ([(2, 2), (1, 2)] if q else [(3, 3), (2, 3)]):
        for bs in (None, 1):
            out.append(dict(name='merge/%dx%d/O/bs=%s' % (a, b, bs), func='merge_op',
                            params=dict(N1=a, N2=b, dom='O', bs=bs), budget=B))
    for dom, compound, n in (('Od3', False, N), ('Md2', False, N), ('Od2', True, N - 1)):
        out.append(dict(name='valuecounts/n<=%d/%s/compound=%d' % (n, dom, compound), func='counts_op',
                        params=dict(N=n, dom=dom, compound=compound), budget=B))
    # a group count never comes from a partially read source: a pass after a failed one fails again or is complete
    # (history harness of C18 with an injected source failure)
    for (n, bs) in ((3, 1), (3, 2)):
        out.append(dict(name='after-failure/aggregate/n=%d/bs=%d' % (n, bs), module='props.c18', func='history',
                        params=dict(op='aggregate', n=n, bs=bs, cache=True, H=3 if q else 5, nslots=2, fail=True),
                        budget=B, per_path=20))
    return out
