"""C07 - hash joins and lookups agree with the sort-merge joins."""
import petl
from petl.errors import DuplicateKeyError

from engine.ref import cells_eq, row_eq
from engine.shim import check

from . import c06
from .common import cell, nrows

PROPERTY = 'C07'

KIND = {'hashjoin': 'join', 'hashleftjoin': 'leftjoin', 'hashrightjoin': 'rightjoin',
        'hashlookupjoin': 'lookupjoin'}


def hashjoin_op(sym, op, NL, NR, dom, compound=False, ragged=False, spelling='key', prefix=False,
                miss='none', differential=False):
    """Same oracle as the merge join of the same kind (C06 definition): same
    header, same multiset of rows; order of the streamed side.  cache and the
    pass number are symbolic; with ``differential`` the real merge join is run
    on the same input and compared as a multiset as well."""
    missing = c06.MISS[miss]
    kind = KIND[op]
    L, R, lh, rh, kw = c06._build(sym, NL, NR, dom, compound, ragged, spelling, prefix, missing)
    mkw = dict(kw)
    if op != 'hashjoin':
        kw['missing'] = missing
        mkw['missing'] = missing
    else:
        kw['missing'] = missing      # hashjoin squares up with `missing`
    if op != 'hashlookupjoin':
        kw['cache'] = sym.flag('cache')
    pad = missing
    lkeys = [c06._key(r, compound, pad) for r in L]
    rkeys = [c06._key(r, compound, pad) for r in R]
    view = getattr(petl, op)([lh] + L, [rh] + R, **kw)
    order = 'right' if op == 'hashrightjoin' else 'left'
    first = None
    for p in range(2):
        out = [tuple(r) for r in view]
        c06.verify_join(out, kind, L, R, lh, rh, lkeys, rkeys, compound, prefix, missing, order=order)
        if first is None:
            first = out
        else:
            check(len(out) == len(first) and all(row_eq(a, b) for a, b in zip(out, first)),
                  'second pass differs from first', first, out)
    if differential:
        if kind == 'join':
            mkw.pop('missing', None)
            # join() squares up with None; only comparable when nothing is padded
        ref = [tuple(r) for r in getattr(petl, kind)([lh] + L, [rh] + R, **mkw)]
        if kind != 'join' or not ragged or missing is None:
            from engine.ref import multiset_eq
            check(ref[0] == first[0] and multiset_eq(ref[1:], first[1:]),
                  'differs from the merge join as a multiset', ref, first)


def hashantijoin_op(sym, NL, NR, dom, compound=False, spelling='key', rswap=False):
    L, R, lh, rh, kw = c06._build(sym, NL, NR, dom, compound, False, spelling, False, None)
    tR = [rh] + R
    if rswap:            # same key name at another column position on the right
        tR = [list(reversed(rh))] + [list(reversed(r)) for r in R]
    lkeys = [c06._key(r, compound, None) for r in L]
    rkeys = [c06._key(r, compound, None) for r in R]
    out = [tuple(r) for r in petl.hashantijoin([lh] + L, tR, **kw)]
    check(len(out) >= 1 and out[0] == tuple(lh), 'header', out[:1])
    exp = [i for i in range(len(L)) if not any(c06._keys_eq(lkeys[i], rkeys[j], compound) for j in range(len(R)))]
    check(len(out) - 1 == len(exp), 'row count', out, exp)
    for r, i in zip(out[1:], exp):       # order of the streamed (left) side
        check(row_eq(r, L[i]), 'row / order', r, L[i])
    ref = [tuple(r) for r in petl.antijoin([lh] + L, tR, **kw)]
    from engine.ref import multiset_eq
    check(ref[0] == out[0] and multiset_eq(ref[1:], out[1:]), 'differs from antijoin as a multiset', ref, out)


def lookup_op(sym, fn, N, dom, compound, valuesel, strict):
    """lookup family: d[k] = all rows (values) with key k in table order; *one
    = first; strict raises DuplicateKeyError iff some key repeats."""
    n = nrows(sym, 'n', N)
    hdr = ['t', 'k', 'j']
    rows = [['T%d' % i, cell(sym, 'r%d.k' % i, dom),
             cell(sym, 'r%d.j' % i, dom) if compound else
             (cell(sym, 'r%d.j' % i, 'Od2') if valuesel == 'j' else i * 10)]
            for i in range(n)]
    key = ('k', 'j') if compound else 'k'
    keys = [(r[1], r[2]) if compound else r[1] for r in rows]

    def keq(a, b):
        return c06._keys_eq(a, b, compound)

    one = fn.endswith('one')
    kw = {}
    if one:
        kw['strict'] = strict
    if fn in ('lookup', 'lookupone') and valuesel is not None:
        kw['value'] = valuesel
    dup = any(keq(keys[i], keys[j]) for i in range(n) for j in range(i))
    try:
        d = getattr(petl, fn)([hdr] + rows, key, **kw)
    except DuplicateKeyError:
        check(one and strict and dup, 'DuplicateKeyError raised although no key repeats / not strict')
        return
    check(not (one and strict and dup), 'strict=True did not raise on a repeated key')

    def val(row):
        if fn in ('lookup', 'lookupone'):
            if valuesel is None:
                return tuple(row)
            if valuesel == 't':
                return row[0]
            if valuesel == 'j':
                return row[2]
            return (row[0], row[2])     # value=('t','j')
        return dict(zip(hdr, row))

    def veq(got, row):
        e = val(row)
        if isinstance(e, dict):
            g = dict((f, got[f]) for f in hdr)
            return all(cells_eq(g[f], e[f]) for f in hdr)
        if isinstance(e, tuple):
            return row_eq(tuple(got), e)
        return cells_eq(got, e)

    # distinct keys in first-occurrence order
    groups = []
    for i in range(n):
        for g in groups:
            if keq(keys[g[0]], keys[i]):
                g.append(i)
                break
        else:
            groups.append([i])
    check(len(d) == len(groups), 'number of keys', len(d), len(groups))
    for g in groups:
        k = keys[g[0]]
        check(k in d, 'key missing from lookup', k)
        got = d[k]
        if one:
            check(veq(got, rows[g[0]]), 'not the first row for the key', got, rows[g[0]])
        else:
            check(len(got) == len(g), 'rows per key', got, g)
            for x, i in zip(got, g):
                check(veq(x, rows[i]), 'rows of a key not in table order', got, g)


# --------------------------------------------------------------------------
BOUNDS = {
    'quick': 'left x right <= 2x2 rows (counts symbolic); keys int, None|int, None|int|str, compound (2x1/1x2; also listed against '
             'the column order, with the merge-join differential); ragged '
             '2x1/1x2; cache flag and pass number (2 passes) symbolic; key field at another column position on the right (hashantijoin); '
             'lookups over <=3 rows incl. a nullable single value field',
    'thorough': '3x3 int, 3x2/2x3 None|int, 2x2 mixed/compound/ragged; lookups over <=4 rows',
}
OUTSIDE = 'unhashable keys (statement: hashable keys only); keys whose hash-equality differs from == under the petl order (1 vs True vs 1.0)'
STUBS = []
ASSUMPTIONS = ['CrossHair model of dict/set with symbolic int keys', 'anti-joins on rectangular inputs only (statement)']
RULE = 'Jobs case-split (operator, domain, shape bound, compound, ragged, spelling, prefix, missing).'


def jobs(tier):
    q = tier == 'quick'
    out = []

    def add(op, NL, NR, dom, **kw):
        name = '%s/%dx%d/%s' % (op, NL, NR, dom) + ''.join('/%s=%s' % (k, v) for k, v in sorted(kw.items()))
        p = dict(op=op, NL=NL, NR=NR, dom=dom)
        p.update(kw)
        out.append(dict(name=name, func='hashjoin_op', params=p, budget=150 if q else 900))

    for op in KIND:
        if q:
            add(op, 2, 2, 'I', differential=True)
            add(op, 2, 2, 'O', differential=True)
            add(op, 2, 1, 'M')
            add(op, 1, 2, 'M')
            add(op, 2, 1, 'Od2', compound=True)
            add(op, 1, 2, 'Od2', compound=True)
            add(op, 2, 1, 'Od2', compound=True, spelling='keyrev', differential=True)
            add(op, 1, 2, 'Od2', compound=True, spelling='keyrev', differential=True)
            add(op, 2, 1, 'O', ragged=True, miss='tag')
            add(op, 1, 2, 'O', ragged=True)
            add(op, 2, 2, 'O', spelling='lrkey', prefix=True, miss='tag')
            add(op, 2, 2, 'I', spelling='natural')
        else:
            add(op, 3, 3, 'I', differential=True)
            add(op, 3, 2, 'O', differential=True)
            add(op, 2, 3, 'O', differential=True)
            add(op, 2, 2, 'M', differential=True)
            add(op, 3, 1, 'M')
            add(op, 1, 3, 'M')
            add(op, 2, 2, 'Od2', compound=True)
            add(op, 2, 2, 'Od2', compound=True, spelling='keyrev', differential=True)
            add(op, 2, 2, 'O', ragged=True, miss='tag')
            add(op, 2, 2, 'O', ragged=True)
            add(op, 3, 2, 'O', spelling='lrkey', prefix=True, miss='tag')
            add(op, 2, 3, 'I', spelling='natural')
    for (NL, NR, dom, kw) in ([(2, 2, 'I', {}), (2, 2, 'O', {}), (2, 1, 'M', {}), (1, 2, 'M', {}),
                               (2, 1, 'Od2', dict(compound=True)), (2, 2, 'O', dict(spelling='lrkey')),
                               (2, 2, 'O', dict(rswap=True)), (2, 1, 'Od2', dict(compound=True, rswap=True))] if q else
                              [(3, 3, 'I', {}), (3, 2, 'O', {}), (2, 3, 'O', {}), (2, 2, 'M', {}),
                               (2, 2, 'Od2', dict(compound=True)), (3, 2, 'O', dict(spelling='lrkey')),
                               (3, 2, 'O', dict(rswap=True))]):
        p = dict(NL=NL, NR=NR, dom=dom)
        p.update(kw)
        out.append(dict(name='hashantijoin/%dx%d/%s' % (NL, NR, dom) + ''.join('/%s=%s' % kv for kv in sorted(kw.items())),
                        func='hashantijoin_op', params=p, budget=150 if q else 900))
    N = 3 if q else 4
    for fn in ('lookup', 'lookupone', 'dictlookup', 'dictlookupone', 'recordlookup', 'recordlookupone'):
        for dom, compound in (('O', False), ('I', False), ('Od2', True)):
            vals = [None, 't', 'j', ('t', 'j')] if fn in ('lookup', 'lookupone') else [None]
            for v in vals:
                if v is not None and dom != 'O':
                    continue
                for strict in ((False, True) if fn.endswith('one') else (False,)):
                    Nj = N - compound - (v == 'j' and not q)
                    out.append(dict(name='%s/%s/n<=%d/value=%s/strict=%d' % (fn, dom, Nj, v, strict),
                                    func='lookup_op',
                                    params=dict(fn=fn, N=Nj, dom=dom, compound=compound, valuesel=v, strict=strict),
                                    budget=150 if q else 900))
    return out
