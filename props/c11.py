"""C11 - execution-strategy arguments never change results; what `cache`
means across edit/iterate histories."""
import operator

import petl
import petl.config

from engine.ref import ref_lt, row_eq
from engine.shim import assume, check
from engine.stubs import CountingSource, pickle_stub, private_tempdir

from .common import cell, nrows

PROPERTY = 'C11'

HDR = ['a', 'b', 'c']
OTHER = [['a', 'z'], [0, 'p'], [1, 'q'], [1, 'r'], [None, 's']]
SAME = [HDR, [1, 10, 'T0'], [None, 11, 'T1'], [0, 12, 'x']]


def _len_rows(k, rows):
    return [k, len(list(rows))]


def _grp(k, rows):
    rows = list(rows)
    for r in rows:
        yield (k, r[2], len(rows))


# name -> (make(t, **strategy kwargs), supports presorted, presort key ('a' | 'row' | ('a','b')), pair?)
OPS = {
    'sort': (lambda t, **kw: petl.sort(t, 'a', **kw), False, None, False),
    'sort-reverse': (lambda t, **kw: petl.sort(t, 'a', reverse=True, **kw), False, None, False),
    'mergesort-reverse': (lambda t, **kw: petl.mergesort(t, SAME, key='a', reverse=True, **kw), False, None, False),
    'join': (lambda t, **kw: petl.join(t, OTHER, key='a', **kw), False, None, False),
    'leftjoin': (lambda t, **kw: petl.leftjoin(t, OTHER, key='a', **kw), False, None, False),
    'rightjoin-R': (lambda t, **kw: petl.rightjoin(OTHER, t, key='a', **kw), False, None, False),
    'outerjoin': (lambda t, **kw: petl.outerjoin(t, OTHER, key='a', **kw), False, None, False),
    'antijoin': (lambda t, **kw: petl.antijoin(t, OTHER, key='a', **kw), False, None, False),
    'lookupjoin': (lambda t, **kw: petl.lookupjoin(t, OTHER, key='a', **kw), False, None, False),
    'complement': (lambda t, **kw: petl.complement(t, SAME, **kw), False, None, False),
    'intersection': (lambda t, **kw: petl.intersection(t, SAME, **kw), False, None, False),
    'diff': (lambda t, **kw: petl.diff(t, SAME, **kw), False, None, True),
    'recordcomplement': (lambda t, **kw: petl.recordcomplement(t, SAME, **kw), False, None, False),
    'recorddiff': (lambda t, **kw: petl.recorddiff(t, SAME, **kw), False, None, True),
    'duplicates': (lambda t, **kw: petl.duplicates(t, 'a', **kw), True, 'a', False),
    'unique': (lambda t, **kw: petl.unique(t, 'a', **kw), True, 'a', False),
    'conflicts': (lambda t, **kw: petl.conflicts(t, 'a', **kw), True, 'a', False),
    'distinct': (lambda t, **kw: petl.distinct(t, 'a', **kw), True, 'a', False),
    'distinct-count': (lambda t, **kw: petl.distinct(t, 'a', count='n', **kw), True, 'a', False),
    'aggregate': (lambda t, **kw: petl.aggregate(t, 'a', list, 'c', **kw), True, 'a', False),
    'aggregate-multi': (lambda t, **kw: petl.aggregate(t, 'a', [('n', len), ('cs', 'c', list)], **kw), True, 'a', False),
    'rowreduce': (lambda t, **kw: petl.rowreduce(t, 'a', _len_rows, header=['a', 'n'], **kw), True, 'a', False),
    'rowgroupmap': (lambda t, **kw: petl.rowgroupmap(t, 'a', _grp, header=['a', 'c', 'n'], **kw), True, 'a', False),
    'fold': (lambda t, **kw: petl.fold(t, 'a', operator.add, 'b', **kw), True, 'a', False),
    'groupselectfirst': (lambda t, **kw: petl.groupselectfirst(t, 'a', **kw), True, 'a', False),
    'groupselectlast': (lambda t, **kw: petl.groupselectlast(t, 'a', **kw), True, 'a', False),
    'groupselectmin': (lambda t, **kw: petl.groupselectmin(t, 'a', 'b', **kw), True, 'a', False),
    'groupselectmax': (lambda t, **kw: petl.groupselectmax(t, 'a', 'b', **kw), True, 'a', False),
    'mergeduplicates': (lambda t, **kw: petl.mergeduplicates(t, 'a', **kw), True, 'a', False),
    'mergesort': (lambda t, **kw: petl.mergesort(t, SAME, key='a', **kw), False, None, False),
    'merge': (lambda t, **kw: petl.merge(t, SAME, key='a', **kw), False, None, False),
    'pivot': (lambda t, **kw: petl.pivot(t, 'a', 'b', 'b', sum, **kw), True, ('a', 'b'), False),
    'unjoin': (lambda t, **kw: petl.unjoin(t, 'a', **kw), True, 'a', True),
}
# joins / set operations with presorted=True need *both* inputs sorted
OPS2 = {
    'join': (lambda l, r, **kw: petl.join(l, r, key='a', **kw), 'a'),
    'leftjoin': (lambda l, r, **kw: petl.leftjoin(l, r, key='a', **kw), 'a'),
    'outerjoin': (lambda l, r, **kw: petl.outerjoin(l, r, key='a', **kw), 'a'),
    'antijoin': (lambda l, r, **kw: petl.antijoin(l, r, key='a', **kw), 'a'),
    'lookupjoin': (lambda l, r, **kw: petl.lookupjoin(l, r, key='a', **kw), 'a'),
    'complement': (lambda l, r, **kw: petl.complement(l, r, **kw), 'row'),
    'intersection': (lambda l, r, **kw: petl.intersection(l, r, **kw), 'row'),
    'mergesort': (lambda l, r, **kw: petl.mergesort(l, r, key='a', **kw), 'a'),
}


def _rows(sym, n, dom, prefix='T'):
    # b small ints (pivot sorts its column values natively; statement: pivot on one type)
    return [[cell(sym, '%s%d.a' % (prefix, i), dom), 10 + (i % 2), '%s%d' % (prefix, i)] for i in range(n)]


def _mat(res, pair):
    if pair:
        return [[tuple(r) for r in x] for x in res]
    return [[tuple(r) for r in res]]


def _same(x, y):
    if len(x) != len(y):
        return False
    for a, b in zip(x, y):
        if len(a) != len(b):
            return False
        for r, s in zip(a, b):
            if len(r) != len(s):
                return False
            for p, q in zip(r, s):
                if isinstance(p, (list, tuple)) and isinstance(q, (list, tuple)):
                    if list(p) != list(q):
                        return False
                elif not (p is q or p == q):
                    return False
    return True


def _sorted_by(rows, key):
    for i in range(len(rows) - 1):
        if key == 'a':
            a, b = rows[i][0], rows[i + 1][0]
        elif key == 'row':
            a, b = tuple(rows[i]), tuple(rows[i + 1])
        else:
            a, b = (rows[i][0], rows[i][1]), (rows[i + 1][0], rows[i + 1][1])
        if ref_lt(b, a):
            return False
    return True


def strategy(sym, op, N, dom, mode):
    """Same result as the default call under every strategy argument."""
    make, can_presort, pkey, pair = OPS[op]
    n = nrows(sym, 'n', N)
    rows = _rows(sym, n, dom)
    bs = sym.pick('bs', [None, 1, 2, N + 1])
    kw = {}
    saved = petl.config.sort_buffersize
    with pickle_stub(), private_tempdir() as td:
        ref = _mat(make([HDR] + [list(r) for r in rows]), pair)
        try:
            if mode == 'buffersize':
                kw = dict(buffersize=bs, cache=sym.flag('cache'))
                if bs == 1 and sym.flag('tempdir'):
                    kw['tempdir'] = td
            elif mode == 'config':
                petl.config.sort_buffersize = bs
                kw = dict(tempdir=td)
            else:
                assume(_sorted_by(rows, pkey))
                kw = dict(presorted=True, buffersize=bs, tempdir=td)
            view = make([HDR] + [list(r) for r in rows], **kw)
            got = _mat(view, pair)
            got2 = _mat(view, pair)
        finally:
            petl.config.sort_buffersize = saved
    check(_same(got, ref), op + ': result differs from the default call', mode, bs, kw.get('cache'), rows, got, ref)
    check(_same(got2, ref), op + ': second pass differs from the default call', mode, bs, kw.get('cache'), rows, got2, ref)


def strategy2(sym, op, NL, NR, dom):
    """presorted=True on two pre-sorted inputs == default call."""
    make, pkey = OPS2[op]
    nl, nr = nrows(sym, 'nl', NL), nrows(sym, 'nr', NR)
    L = _rows(sym, nl, dom, 'L')
    if pkey == 'row':
        R = [[cell(sym, 'R%d.a' % i, dom), 10 + (i % 2), 'L%d' % i] for i in range(nr)]   # rows may coincide with L's
        rh = HDR
    else:
        R = [[cell(sym, 'R%d.a' % i, dom), 'R%d' % i] for i in range(nr)]
        rh = ['a', 'z']
    assume(_sorted_by(L, pkey) and _sorted_by(R, pkey if pkey == 'row' else 'a'))
    bs = sym.pick('bs', [None, 1])
    # row containers of the two inputs may differ (list rows from a literal, tuple rows from another petl view)
    rrow = tuple if sym.flag('R.tuple-rows') else list
    with pickle_stub(), private_tempdir() as td:
        ref = _mat(make([HDR] + [list(r) for r in L], [rh] + [rrow(r) for r in R]), False)
        got = _mat(make([HDR] + [list(r) for r in L], [rh] + [rrow(r) for r in R], presorted=True, buffersize=bs,
                        tempdir=td), False)
    check(_same(got, ref), op + ': presorted=True on sorted inputs differs from the default call', L, R, got, ref)


# ---------------------------------------------------------------------------
HOPS = {
    'sort': lambda t, **kw: petl.sort(t, 'a', **kw),
    'join': lambda t, **kw: petl.join(t, OTHER, key='a', **kw),
    'distinct': lambda t, **kw: petl.distinct(t, 'a', **kw),
    'aggregate': lambda t, **kw: petl.aggregate(t, 'a', list, 'c', **kw),
    'complement': lambda t, **kw: petl.complement(t, SAME, **kw),
    'groupselectmin': lambda t, **kw: petl.groupselectmin(t, 'a', 'b', **kw),
    'diff-subtracted': lambda t, **kw: petl.diff(t, SAME, **kw)[1],
    'merge': lambda t, **kw: petl.merge(t, SAME, key='a', **kw),
    'unjoin-left': lambda t, **kw: petl.unjoin(t, 'a', **kw)[0],
    'pivot': lambda t, **kw: petl.pivot(t, 'a', 'b', 'b', sum, **kw),
    'mergeduplicates': lambda t, **kw: petl.mergeduplicates(t, 'a', **kw),
    'rowgroupmap': lambda t, **kw: petl.rowgroupmap(t, 'a', _grp, header=['a', 'c', 'n'], **kw),
}
def cache_history_right(sym, op, H, cache):
    """as cache_history, but the edited source is the operator's second input"""
    left = [list(HDR), [1, 10, 'T0'], [0, 11, 'T1'], [3, 10, 'T2']]
    store = [['a', 'z'], [1, 'p'], [0, 'q']]
    src = CountingSource(store)
    mk = {'lookupjoin': lambda r, **kw: petl.lookupjoin(left, r, key='a', **kw),
          'leftjoin': lambda r, **kw: petl.leftjoin(left, r, key='a', **kw),
          'antijoin': lambda r, **kw: petl.antijoin(left, r, key='a', **kw)}[op]
    edits = [[3, 's'], [1, 'first']]
    with pickle_stub(), private_tempdir() as td:
        view = mk(src, cache=cache, tempdir=td)
        completed, versions, trace, nedits = None, [], [], 0
        for step in range(H):
            act = sym.choice('h%d' % step, 2)
            if act == 1:
                assume(nedits < 2 and (not trace or trace[-1] != 'edit'))
                store.append(list(edits[nedits]))
                store[1] = [edits[nedits][0], 'changed%d' % nedits]
                nedits += 1
                trace.append('edit')
                continue
            cur = [tuple(r) for r in mk([list(r) for r in store])]
            versions.append(cur)
            before = src.pulls
            got = [tuple(r) for r in view]
            trace.append('full')
            if not cache:
                check(got == cur, op + ': cache=False pass does not reflect the current contents of the second input', trace, got, cur)
            elif completed is not None:
                check(got == completed and src.pulls == before, op + ': cache=True pass after a completed one re-read / differs', trace)
            else:
                check(any(got == v for v in versions), op + ': cache=True first pass matches no version', trace, got)
                completed = got


EDITS = [[0, 12, 'E0'], [None, 11, 'E1'], [5, 10, 'E2'], [1, 11, 'E3']]     # the first edit brings a new value of 'b'


def cache_history(sym, op, n0, H, cache, bs):
    """cache=False: every pass reflects the current source contents.
    cache=True: passes after a completed one equal it and read nothing."""
    make = HOPS[op]
    data = [[1, 10, 'T0'], [0, 11, 'T1'], [1, 10, 'T2']][:n0]
    store = [list(HDR)] + [list(r) for r in data]
    src = CountingSource(store)
    with pickle_stub(), private_tempdir() as td:
        view = make(src, buffersize=bs, cache=cache, tempdir=td)
        versions = []           # op(contents) at the start of each pass so far
        completed = None        # result of the first completed pass
        trace = []
        nedits = 0

        def current():
            return [tuple(r) for r in make([list(r) for r in store])]
        for step in range(H):
            act = sym.choice('h%d' % step, 3)
            if act == 2:
                assume(nedits < 2 and (not trace or trace[-1] != 'edit'))    # consecutive edits are one edit
                # edit the source: append a row and change the key of the first data row
                # (rows are replaced, never mutated in place: a cache may legitimately hold the old row objects)
                store.append(list(EDITS[nedits]))
                if len(store) > 1:
                    store[1] = [EDITS[nedits][0]] + list(store[1][1:])
                nedits += 1
                trace.append('edit')
                continue
            cur = current()
            versions.append(cur)
            before = src.pulls + src.header_reads
            if act == 0:
                trace.append('full')
                got = [tuple(r) for r in view]
            else:
                k = sym.choice('k%d' % step, 2) + 1      # rows taken (incl. header) before abandoning: 1..2
                trace.append('partial%d' % k)
                it = iter(view)
                got = []
                for _ in range(k):
                    try:
                        got.append(tuple(next(it)))
                    except StopIteration:
                        break
                del it
            pulled = src.pulls + src.header_reads - before
            if not cache:
                exp = cur if act == 0 else cur[:len(got)]
                check(got == exp, op + ': cache=False pass does not reflect the current source contents', trace, got, exp)
            elif completed is not None:
                exp = completed if act == 0 else completed[:len(got)]
                check(got == exp, op + ': cache=True pass after a completed one differs from it', trace, got, exp)
                check(pulled == 0, op + ': cache=True pass after a completed one read the source again', trace, pulled)
            else:
                ok = any((got == v) if act == 0 else (got == v[:len(got)]) for v in versions)
                check(ok, op + ': cache=True pass equals the operator on no version of the source seen so far', trace, got,
                      versions)
            if act == 0 and completed is None:
                completed = got
        del view


# --------------------------------------------------------------------------
BOUNDS = {
    'quick': 'part 1: every sort-backed operator over n in [0,3] rows with None|int keys; buffersize in {None,1..4} as argument '
             'or through petl.config.sort_buffersize; cache flag; tempdir set/unset; presorted=True on inputs assumed sorted '
             '(one- and two-input operators, two-input: 2x2, rows of the second input as lists or tuples); two passes.  part 2: histories of H=4 symbolic steps over '
             '{full pass, partial pass of 1..2 rows, edit the source}, cache in {T,F}, buffersize in {None,1}, 12 operators',
    'thorough': 'part 1 with n in [0,4] and mixed keys; part 2 with H=6',
}
OUTSIDE = 'forgetting to forward buffersize/tempdir (does not change results; not a violation of the statement); pivot with mixed-type column values'
STUBS = ['PickleStub', 'private temp dir', 'CountingSource (part 2)']
ASSUMPTIONS = ['presorted=True: inputs assumed sorted under the reference order',
               'cache=True before any completed pass: the output may reflect the source at the start of the current or of any '
               'earlier pass (the external sort caches as soon as its sort phase is done); after a completed pass: equal to it '
               'and zero source reads']
RULE = 'Jobs case-split (operator, bounds); cells, buffersize, cache, tempdir, mode, histories symbolic.'


def jobs(tier):
    q = tier == 'quick'
    N = 3 if q else 4
    B = 240 if q else 1800
    out = []
    for op in OPS:
        modes = ['buffersize', 'config'] + (['presorted'] if OPS[op][1] else [])
        for mode in modes:
            binary = op in ('join', 'leftjoin', 'rightjoin-R', 'outerjoin', 'antijoin', 'lookupjoin', 'complement',
                            'intersection', 'diff', 'recordcomplement', 'recorddiff', 'mergesort', 'merge', 'mergesort-reverse')
            Nj = N - 1 if ((q and mode == 'config') or binary) else N
            out.append(dict(name='strategy/%s/%s/O/n<=%d' % (op, mode, Nj), func='strategy',
                            params=dict(op=op, N=Nj, dom='O', mode=mode), budget=B))
            if not q and op != 'pivot' and not binary:
                out.append(dict(name='strategy/%s/%s/M/n<=3' % (op, mode), func='strategy',
                                params=dict(op=op, N=3, dom='Md2', mode=mode), budget=B))
    for op in OPS2:
        a, b = (2, 2) if q else (3, 2)
        out.append(dict(name='presorted2/%s/%dx%d' % (op, a, b), func='strategy2',
                        params=dict(op=op, NL=a, NR=b, dom='O' if OPS2[op][1] == 'a' else 'Od2'), budget=B))
    H = 4 if q else 6
    for op in HOPS:
        for cache in (True, False):
            for bs in (None, 1):
                if q and bs == 1 and op not in ('sort', 'join', 'distinct', 'groupselectmin'):
                    continue
                out.append(dict(name='history/%s/cache=%d/bs=%s/H=%d' % (op, cache, bs, H), func='cache_history',
                                params=dict(op=op, n0=3, H=H, cache=cache, bs=bs), budget=B))
    for op in ('lookupjoin', 'leftjoin', 'antijoin'):
        for cache in (True, False):
            out.append(dict(name='history-right/%s/cache=%d' % (op, cache), func='cache_history_right',
                            params=dict(op=op, H=4 if q else 6, cache=cache), budget=B))
    return out
