"""C14 - reshape operators are mutually inverse and cell-exact."""
import re

import petl

from engine.ref import cells_eq, ref_lt, row_eq
from engine.shim import assume, check
from engine.stubs import default_tempdir, pickle_stub, private_tempdir

from .common import cell, nrows

PROPERTY = 'C14'


def _distinct(keys, compound):
    for i in range(len(keys)):
        for j in range(i):
            if compound:
                assume(not (cells_eq(keys[i][0], keys[j][0]) and cells_eq(keys[i][1], keys[j][1])))
            else:
                assume(not cells_eq(keys[i], keys[j]))


def melt_recast(sym, N, dom, compound, keyarg, rev=False):
    """recast(melt(t, key)) == sort(t, key) with variable fields in sorted order, for unique keys."""
    n = nrows(sym, 'n', N)
    if compound:
        hdr = ['k', 'y', 'j', 'x']                 # key (k, j); variables y, x  ->  recast gives (k, j, x, y)
        rows = [[cell(sym, 'r%d.k' % i, dom), 'y%d' % i, cell(sym, 'r%d.j' % i, dom), 'x%d' % i] for i in range(n)]
        keys = [(r[0], r[2]) for r in rows]
        key = ['k', 'j']
        if rev:                                    # key fields given in another order than they appear in the header
            keys = [(r[2], r[0]) for r in rows]
            key = ['j', 'k']
    else:
        hdr = ['y', 'k', 'x']
        rows = [['y%d' % i, cell(sym, 'r%d.k' % i, dom), 'x%d' % i] for i in range(n)]
        keys = [r[1] for r in rows]
        key = 'k'
    _distinct(keys, compound)
    table = [hdr] + rows
    with pickle_stub(), private_tempdir() as td, default_tempdir(td):
        if keyarg == 'key':
            m = petl.melt(table, key=key)
        else:
            m = petl.melt(table, variables=['y', 'x'])
        molten = [tuple(r) for r in m]
        # melt emits exactly one row per (row, variable) cell
        K = 2 if compound else 1
        check(molten[0] == tuple(key if compound else [key]) + ('variable', 'value'), 'melt header', molten[0])
        exp_m = []
        for r, k in zip(rows, keys):
            kt = tuple(k) if compound else (k,)
            exp_m.append(kt + ('y', r[1] if compound else r[0]))
            exp_m.append(kt + ('x', r[3] if compound else r[2]))
        check(len(molten) - 1 == len(exp_m) and all(row_eq(a, b) for a, b in zip(molten[1:], exp_m)),
              'melt: one row per (row, variable) cell, in order', molten, exp_m)
        back = [tuple(r) for r in petl.recast(m, key=key)]
    exp_hdr = tuple(key if compound else [key]) + ('x', 'y')
    if n == 0:
        # no data: the variables cannot be discovered; header is the key only
        check(back == [tuple(key if compound else [key])], 'recast of an empty melt', back)
        return
    check(back[0] == exp_hdr, 'recast header (key + variables in sorted order)', back[0], exp_hdr)
    check(len(back) - 1 == n, 'recast row count', back)
    seen = []
    for r in back[1:]:
        hit = None
        for i in range(n):
            kt = tuple(keys[i]) if compound else (keys[i],)
            if i not in seen and all(cells_eq(a, b) for a, b in zip(r[:K], kt)):
                hit = i
                break
        check(hit is not None, 'recast: key of an output row matches no input row', r)
        seen.append(hit)
        src = rows[hit]
        xv, yv = (src[3], src[1]) if compound else (src[2], src[0])
        check(r[K] == xv and r[K + 1] == yv, 'recast: cell differs from the original table', r, src)
    for a in range(len(seen) - 1):
        check(not ref_lt(keys[seen[a + 1]], keys[seen[a]]), 'recast: rows not sorted by key')


def transpose_inv(sym, N, W):
    n = nrows(sym, 'n', N)
    w = sym.choice('w', W) + 1
    hdr = ['f%d' % j for j in range(w)]
    rows = [[cell(sym, 'r%dc%d' % (i, j), 'Od2') if (i + j) % 2 == 0 else 'r%dc%d' % (i, j) for j in range(w)]
            for i in range(n)]
    table = [hdr] + rows
    tt = [tuple(r) for r in petl.transpose(petl.transpose(table))]
    check(len(tt) == n + 1 and all(row_eq(a, b) for a, b in zip(tt, table)), 'transpose is not an involution', tt, table)
    t1 = [tuple(r) for r in petl.transpose(table)]
    check(len(t1) == w and all(len(r) == n + 1 for r in t1), 'transpose shape', t1)
    for j in range(w):
        check(t1[j][0] == hdr[j] and all(cells_eq(t1[j][i + 1], rows[i][j]) for i in range(n)), 'transpose cell', t1)


def flatten_unflatten(sym, N, W):
    n = nrows(sym, 'n', N)
    w = sym.choice('w', W) + 1
    rows = [['r%dc%d' % (i, j) for j in range(w)] for i in range(n)]
    table = [['h%d' % j for j in range(w)]] + rows
    flat = list(petl.flatten(table))
    check(flat == [c for r in rows for c in r], 'flatten is not row-major', flat)
    back = [tuple(r) for r in petl.unflatten(petl.flatten(table), w)]
    check(back == [tuple('f%d' % j for j in range(w))] + [tuple(r) for r in rows], 'unflatten(flatten(t), n) != data rows of t',
          back)
    # field form and a period that does not divide the number of values
    p = sym.choice('p', 3) + 1
    missing = sym.pick('missing', [None, 'M'])
    col = [tuple(r) for r in petl.unflatten(table, 'h0', p, missing=missing)]
    vals = [r[0] for r in rows]
    exp = [tuple('f%d' % j for j in range(p))]
    for s in range(0, len(vals), p):
        chunk = vals[s:s + p]
        exp.append(tuple(chunk + [missing] * (p - len(chunk))))
    check(col == exp, 'unflatten(table, field, period)', col, exp)


def melt_ragged(sym, N):
    """melt on short rows: no output row for a missing value cell."""
    n = nrows(sym, 'n', N)
    hdr = ['k', 'x', 'y']
    rows = []
    for i in range(n):
        ln = sym.choice('len%d' % i, 3) + 1
        rows.append(['k%d' % i, 'x%d' % i, 'y%d' % i][:ln])
    molten = [tuple(r) for r in petl.melt([hdr] + rows, 'k', variablefield='var', valuefield='val')]
    exp = [('k', 'var', 'val')]
    for r in rows:
        for j, v in ((1, 'x'), (2, 'y')):
            if j < len(r):
                exp.append((r[0], v, r[j]))
    check(molten == exp, 'melt on ragged rows', molten, exp)


def pivot_op(sym, N, agg):
    n = nrows(sym, 'n', N)
    rows = [[cell(sym, 'r%d.f1' % i, 'Id2'), cell(sym, 'r%d.f2' % i, 'Id2'), 10 + i] for i in range(n)]
    table = [['f1', 'f2', 'v']] + rows
    missing = sym.pick('missing', [None, 'M'])
    with pickle_stub(), private_tempdir() as td:
        got = [tuple(r) for r in petl.pivot(table, 'f1', 'f2', 'v', list if agg == 'list' else sum, missing=missing,
                                            tempdir=td)]
    cols = sorted(set(int(r[1]) for r in rows))
    check(got[0] == ('f1',) + tuple(cols), 'pivot header', got[0], cols)
    r1 = sorted(set(int(r[0]) for r in rows))
    check([g[0] for g in got[1:]] == r1, 'pivot rows: one per distinct f1 in ascending order', got, r1)
    for g in got[1:]:
        for ci, c in enumerate(cols):
            members = [r[2] for r in rows if r[0] == g[0] and r[1] == c]
            cellv = g[1 + ci]
            if not members:
                check(cellv == missing and (cellv is None) == (missing is None), 'pivot: empty cell is not `missing`', g, c)
            elif agg == 'list':
                check(list(cellv) == members, 'pivot: cell is not the aggregate of exactly the rows with that pair', g, c, members)
            else:
                check(cellv == sum(members), 'pivot: cell sum', g, c, members)


ALPHA = ['a', 'b', ',', '1']


def expand_ops(sym, op, N, maxlen=3):
    """unpack / unpackdict / capture / split / splitdown expand one field and leave the others unchanged."""
    n = nrows(sym, 'n', N)
    inc = sym.flag('include_original')
    missing = sym.pick('missing', [None, 'M'])
    if op == 'unpack':
        vals = [['u%d_%d' % (i, j) for j in range(sym.choice('len%d' % i, 4))] for i in range(n)]
        rows = [['a%d' % i, vals[i], 'c%d' % i] for i in range(n)]
        form = sym.choice('newfields', 3)
        nf = [['p', 'q'], 2, None][form]
        got = [tuple(r) for r in petl.unpack([['a', 'b', 'c']] + rows, 'b', nf, include_original=inc, missing=missing)]
        names = ['p', 'q'] if form == 0 else ['b1', 'b2'] if form == 1 else []
        hdr = (['a', 'b', 'c'] if inc else ['a', 'c']) + names
        exp = [tuple(hdr)]
        for r, v in zip(rows, vals):
            base = [r[0], v, r[2]] if inc else [r[0], r[2]]
            ext = (v[:2] + [missing] * (2 - len(v[:2]))) if names else []
            exp.append(tuple(base + ext))
        check(got == exp, 'unpack', got, exp)
    elif op == 'unpackdict':
        ds = []
        for i in range(n):
            d = {}
            if sym.flag('d%d.p' % i):
                d['p'] = 'p%d' % i
            if sym.flag('d%d.q' % i):
                d['q'] = 'q%d' % i
            ds.append(d if not sym.flag('d%d.notdict' % i) else None)
        rows = [['a%d' % i, ds[i], 'c%d' % i] for i in range(n)]
        given = sym.flag('keys_given')
        kw = dict(keys=['q', 'p']) if given else dict(samplesize=2)
        got = [tuple(r) for r in petl.unpackdict([['a', 'b', 'c']] + rows, 'b', includeoriginal=inc, missing=missing, **kw)]
        if given:
            keys = ['q', 'p']
        else:
            keys = sorted(set(k for d in ds[:2] if isinstance(d, dict) for k in d))
        hdr = (['a', 'b', 'c'] if inc else ['a', 'c']) + keys
        exp = [tuple(hdr)]
        for r, d in zip(rows, ds):
            base = [r[0], d, r[2]] if inc else [r[0], r[2]]
            exp.append(tuple(base + [(d[k] if isinstance(d, dict) and k in d else missing) for k in keys]))
        check(got == exp, 'unpackdict', got, exp)
    else:
        texts = [sym.enumstr('t%d' % i, maxlen, ALPHA) for i in range(n)]
        # the expanded field comes after a field that may hold the very same value, with a different cell in between
        rows = [[(texts[i] if sym.flag('same%d' % i) else 'a%d' % i), 'm%d' % i, texts[i], 'c%d' % i] for i in range(n)]
        H4 = ['a', 'm', 'b', 'c']
        table = [H4] + rows

        def base(r):
            return list(r) if inc else [r[0], r[1], r[3]]
        hdr0 = H4 if inc else ['a', 'm', 'c']
        if op == 'capture':
            got = [tuple(r) for r in petl.capture(table, 'b', '([ab])(.?)', ['p', 'q'], include_original=inc,
                                                  fill=['F1', 'F2'])]
            exp = [tuple(hdr0 + ['p', 'q'])]
            for r in rows:
                m = re.search('([ab])(.?)', r[2])
                exp.append(tuple(base(r) + (list(m.groups()) if m else ['F1', 'F2'])))
            check(got == exp, 'capture', got, exp)
        elif op == 'split':
            mx = sym.pick('maxsplit', [0, 1])
            got = [tuple(r) for r in petl.split(table, 'b', ',', ['p', 'q'], include_original=inc, maxsplit=mx)]
            exp = [tuple(hdr0 + ['p', 'q'])]
            for r in rows:
                exp.append(tuple(base(r) + re.split(',', r[2], maxsplit=mx)))
            check(got == exp, 'split', got, exp)
        elif op == 'splitdown':
            mx = sym.pick('maxsplit', [0, 1])
            got = [tuple(r) for r in petl.splitdown(table, 'b', ',', maxsplit=mx)]
            exp = [tuple(H4)]
            for r in rows:
                for piece in re.split(',', r[2], maxsplit=mx):
                    exp.append((r[0], r[1], piece, r[3]))
            check(got == exp, 'splitdown', got, exp)


def dicts_columns_roundtrip(sym, N):
    n = nrows(sym, 'n', N)
    hdr = ['a', 'b', 'c']
    rows = [[cell(sym, 'r%d.a' % i, 'O'), 'b%d' % i, cell(sym, 'r%d.c' % i, 'O')] for i in range(n)]
    table = [hdr] + rows
    back = [tuple(r) for r in petl.fromdicts(list(petl.dicts(table)), header=hdr)]
    check(len(back) == n + 1 and all(row_eq(a, b) for a, b in zip(back, table)), 'fromdicts(dicts(t)) != t', back)
    with private_tempdir() as td, default_tempdir(td), pickle_stub():
        back3 = [tuple(r) for r in petl.fromdicts((d for d in petl.dicts(table)), header=hdr)]
    check(len(back3) == n + 1 and all(row_eq(a, b) for a, b in zip(back3, table)), 'fromdicts(generator of dicts(t)) != t', back3)
    if n > 0:
        back2 = [tuple(r) for r in petl.fromdicts(list(petl.dicts(table)))]
        check(all(row_eq(a, b) for a, b in zip(back2, table)) and len(back2) == n + 1, 'fromdicts(dicts(t)) (header discovered) != t',
              back2)
    cols = petl.columns(table)
    backc = [tuple(r) for r in petl.fromcolumns([cols[f] for f in hdr], header=hdr)]
    check(len(backc) == n + 1 and all(row_eq(a, b) for a, b in zip(backc, table)), 'fromcolumns(columns(t)) != t', backc)


# --------------------------------------------------------------------------
BOUNDS = {
    'quick': 'melt/recast: n in [0,3] rows with unique symbolic keys (None|int, None|int|str, compound (None|int in [0,2))^2), key given '
             'or inferred from variables; transpose: up to 2 rows x 3 columns; flatten/unflatten: 3 rows x 3 columns, periods 1..3; '
             'pivot: n in [0,3] with f1,f2 in [0,2) and list/sum aggregation; unpack lists of 0..3 items, unpackdict with optional '
             'keys / non-dict cells, capture/split/splitdown over strings of length <= 3 over {a,b,comma,1} (2 rows); '
             'fromdicts(dicts(t)) and fromcolumns(columns(t)) over 2 rows',
    'thorough': 'one more row everywhere',
}
OUTSIDE = 'pivot with None / mixed-type column values (it sorts them natively; the statement does not promise it); recast with duplicate keys (reducers)'
STUBS = ['PickleStub + private temp dir (recast/pivot sort internally; fromdicts(generator) spills)']
ASSUMPTIONS = ['keys assumed pairwise distinct for the melt/recast round trip', 'text cells for regex functions realise (C regex engine): bounded enumeration']
RULE = 'Jobs case-split (function, domain); row counts, keys, lengths, flags symbolic.'


def jobs(tier):
    q = tier == 'quick'
    N = 3 if q else 4
    B = 150 if q else 1200
    out = []
    for dom, compound in (('O', False), ('M', False), ('X', False), ('Od2', True)):
        for keyarg in ('key', 'variables'):
            out.append(dict(name='melt-recast/%s/%s' % (dom, keyarg), func='melt_recast',
                            params=dict(N=N - compound, dom=dom, compound=compound, keyarg=keyarg), budget=B))
        if compound:
            out.append(dict(name='melt-recast/%s/key-reordered' % dom, func='melt_recast',
                            params=dict(N=N - compound, dom=dom, compound=compound, keyarg='key', rev=True), budget=B))
    out.append(dict(name='transpose', func='transpose_inv', params=dict(N=N - 1, W=3), budget=B))
    out.append(dict(name='flatten-unflatten', func='flatten_unflatten', params=dict(N=N, W=3), budget=B))
    out.append(dict(name='melt-ragged', func='melt_ragged', params=dict(N=N), budget=B))
    for agg in ('list', 'sum'):
        out.append(dict(name='pivot/%s' % agg, func='pivot_op', params=dict(N=N, agg=agg), budget=B))
    for op in ('unpack', 'unpackdict'):
        out.append(dict(name='expand/%s' % op, func='expand_ops', params=dict(op=op, N=N - 1), budget=B))
    for op in ('capture', 'split', 'splitdown'):
        for (n, ml) in ([(1, 3), (2, 1)] if q else [(1, 4), (2, 2), (3, 1)]):
            out.append(dict(name='expand/%s/n<=%d/len<=%d' % (op, n, ml), func='expand_ops', params=dict(op=op, N=n, maxlen=ml),
                            budget=B))
    out.append(dict(name='dicts-columns-roundtrip', func='dicts_columns_roundtrip', params=dict(N=N - 1), budget=B))
    return out
