"""C20 - tables with a header and no data rows are handled by every operator."""
from engine.shim import check

from . import c05, c06, c07, c08, c09, c10
from .catalogue import BY_NAME, HDR, NAMES, SAMPLE, U

PROPERTY = 'C20'


def _norm(x):
    return [tuple(r) if isinstance(r, (list, tuple)) else r for r in x]


def unary(sym, lo, hi, container):
    """One operator (solver-chosen among catalogue[lo:hi]) on a header-only
    table: no exception; usual header; rows its definition gives for zero
    rows."""
    name, make, opts = U[lo + sym.choice('op', hi - lo)]
    kind = opts.get('kind', 'table')
    # shape of the header-only container: list of lists / tuple of tuples / generator-backed table object
    if container == 'lists':
        empty = [list(HDR)]
    elif container == 'tuples':
        empty = (HDR,)
    else:
        import petl
        empty = petl.wrap([HDR])
    res = make(empty)
    if kind == 'noraise':
        check(isinstance(res, str), name + ': not a string', res)
        return
    if kind == 'value':
        check(res == opts['value'], name + ': value on a header-only table', res, opts['value'])
        return
    if kind == 'values':
        check(_norm(res) == [], name + ': expected no items', _norm(res))
        return
    if kind == 'dict':
        check(dict(res) == {}, name + ': expected an empty dict', res)
        return
    usual = make([list(r) for r in SAMPLE])       # the operator's usual header, from the real code
    if kind == 'pair':
        for r, u in zip(res, usual):
            got, ush = _norm(r), _norm(u)
            check(got == [ush[0]], name + ': usual header and no data rows expected', got, ush[0])
        return
    got = _norm(res)
    if 'hdr' in opts:
        exp_hdr = opts['hdr']
    else:
        exp_hdr = _norm(usual)[0]
    exp = ([] if exp_hdr is None else [tuple(exp_hdr)]) + [tuple(r) for r in opts.get('rows', [])]
    check(got == exp, name + ': output on a header-only table', got, exp)
    # second pass gives the same
    check(_norm(res) == exp, name + ': second pass differs', _norm(res), exp)


# --------------------------------------------------------------------------
BOUNDS = {
    'quick': '%d unary catalogue entries (transforms, selections, fills, maps, regex, unpack, reshape, sort-backed operators, '
             'accessors, lookups, display) on a header-only table given as list-of-lists, tuple-of-tuples and a wrapped Table; '
             'multi-input operators (merge/hash joins, antijoins, crossjoin, set operations, mergesort, merge) with every '
             'header-only mask over inputs of 0..1 rows (2 for the non-empty side) and symbolic None|int cells, via the C05-C10 '
             'harnesses with their full reference oracles' % len(NAMES),
    'thorough': 'as quick (the unary sweep is finite); multi-input operators with 0..2 rows per side',
}
OUTSIDE = ('valuecount/stats-style functions that return a frequency or a mean (no defined result for zero rows); interval* '
           '(intervaltree not installed); validate; optional-dependency formats')
STUBS = ['PickleStub + private temp dir in the reused sort-backed harnesses']
ASSUMPTIONS = ['the "usual header" of a unary operator is the header the real operator yields on a fixed 3-row sample '
               '(explicit where the header is data-dependent: recast, pivot, transpose, unpackdict, unflatten, skip)']
RULE = ('Unary sweep: one solver-chosen operator per path (finite enumeration executed by the same engine; said plainly). '
        'Multi-input: symbolic row counts include 0 on either/both sides.')


def jobs(tier):
    q = tier == 'quick'
    out = []
    B = 120 if q else 600
    step = 12
    for container in ('lists', 'tuples', 'table'):
        for lo in range(0, len(U), step):
            hi = min(len(U), lo + step)
            out.append(dict(name='unary/%s/%s..%s' % (container, U[lo][0], U[hi - 1][0]), func='unary',
                            params=dict(lo=lo, hi=hi, container=container), budget=B))
    n = 1 if q else 2
    # multi-input operators: reuse the relational harnesses with tiny shapes (n=0 on either/both sides included)
    for op in c06.OPS:
        for kw in (dict(), dict(miss='tag'), dict(spelling='lrkey', prefix=True), dict(compound=True)):
            dom = 'Od2' if kw.get('compound') else 'O'
            for (a, b) in ((n, n + 1), (n + 1, n)) if not kw else ((n, n),):
                p = dict(op=op, NL=a, NR=b, dom=dom)
                p.update(kw)
                out.append(dict(name='%s/%dx%d' % (op, a, b) + ''.join('/%s=%s' % kv for kv in sorted(kw.items())),
                                module='props.c06', func='join_op', params=p, budget=B))
    out.append(dict(name='antijoin/%dx%d' % (n + 1, n), module='props.c06', func='antijoin_op',
                    params=dict(NL=n + 1, NR=n, dom='O'), budget=B))
    for prefix in (False, True):
        out.append(dict(name='crossjoin/prefix=%d' % prefix, module='props.c06', func='crossjoin_op',
                        params=dict(N1=n, N2=n, N3=n, ragged=False, prefix=prefix), budget=B))
    for op in c07.KIND:
        out.append(dict(name='%s/%dx%d' % (op, n + 1, n), module='props.c07', func='hashjoin_op',
                        params=dict(op=op, NL=n + 1, NR=n, dom='O'), budget=B))
        out.append(dict(name='%s/%dx%d' % (op, n, n + 1), module='props.c07', func='hashjoin_op',
                        params=dict(op=op, NL=n, NR=n + 1, dom='O', miss='tag'), budget=B))
    out.append(dict(name='hashantijoin/%dx%d' % (n + 1, n), module='props.c07', func='hashantijoin_op',
                    params=dict(NL=n + 1, NR=n, dom='O'), budget=B))
    for op in c08.OPS:
        out.append(dict(name='%s/%dx%d' % (op, n, n), module='props.c08', func='setop',
                        params=dict(op=op, NA=n, NB=n, ncols=2, dom='Id2+Od2'), budget=B))
    for keyform in ('single', 'none'):
        for presorted in (False, True):
            out.append(dict(name='mergesort/%s/presorted=%d' % (keyform, presorted), module='props.c05', func='mergesort_eq',
                            params=dict(N1=n, N2=n, N3=n, keyform=keyform, dom='O', reverse=False, bs=None,
                                        presorted=presorted), budget=B))
    out.append(dict(name='merge', module='props.c09', func='merge_op', params=dict(N1=n, N2=n, dom='O'), budget=B))
    for op in c09.GROUP_OPS + ['aggregate-none']:
        out.append(dict(name='%s/n<=1' % op, module='props.c09', func='group_op', params=dict(op=op, N=1, dom='O'),
                        budget=B))
    out.append(dict(name='valuecounts/n<=1', module='props.c09', func='counts_op', params=dict(N=1, dom='Od2', compound=False),
                    budget=B))
    for op, kw in (('partition', {}), ('distinct', {}), ('distinct', dict(countfield='n')), ('conflicts', dict(conf='include'))):
        out.append(dict(name='dedup-%s/n<=1%s' % (op, ''.join('/%s=%s' % kv for kv in kw.items())), module='props.c10',
                        func='keyed', params=dict(dict(op=op, N=1, dom='O', compound=False), **kw), budget=B))
    out.append(dict(name='dedup-wholerow/n<=1', module='props.c10', func='wholerow', params=dict(N=1, ncols=2, dom='Od2'),
                    budget=B))
    return out
