"""C16 - pass-through views are transparent; a consumed tee writes what to*
writes."""
import logging
import os

import petl
from petl.util.materialise import cache as pcache

from engine.ref import row_eq
from engine.shim import check
from engine.stubs import clock_stub, private_tempdir


PROPERTY = 'C16'


FIXED = [['x', None], ['a,b', 3], ['q"<&>\xe9', ''], ['\n', 'y']]


def _table(sym, N, ragged, text=False):
    n = sym.choice('n', N + 1)
    rows = []
    for i in range(n):
        if text and not ragged:
            row = [sym.pick('r%dc0' % i, ['x', 'q"<&>,\xe9\n', '']), sym.pick('r%dc1' % i, [None, 3])]
        else:
            row = list(FIXED[i % len(FIXED)])        # transparency does not depend on cell values
        if ragged:
            ln = sym.choice('len%d' % i, 4)
            row = (row + ['extra'])[:ln]
        rows.append(row)
    return [['f', 'g']] + rows


def _same(got, table, what):
    check(len(got) == len(table), what + ': number of rows yielded', got, table)
    for g, t in zip(got, table):
        check(row_eq(g, t), what + ': row differs from the wrapped table', g, t)


class _Sink(object):
    def __init__(self):
        self.lines = []

    def write(self, s):
        self.lines.append(s)

    def flush(self):
        pass


def transparent(sym, wrapper, N, ragged):
    """The wrapper yields exactly the rows of the table it wraps, in order (twice)."""
    table = _table(sym, N, ragged)
    # zero steps drive the ZeroDivisionError paths of progress
    steps = [sym.pick('clock%d' % i, [0, 1]) for i in range(2)] if wrapper in ('progress', 'log_progress') else [1]
    with clock_stub(steps), private_tempdir() as td:
        if wrapper == 'progress':
            bs = sym.pick('batchsize', [1, 2, 3])
            sink = _Sink()
            v = petl.progress(table, bs, prefix='p: ', out=sink)
        elif wrapper == 'log_progress':
            bs = sym.pick('batchsize', [1, 2])
            lg = logging.getLogger('pv.c16')
            lg.propagate = False
            lg.handlers = [logging.NullHandler()]
            v = petl.log_progress(table, bs, logger=lg)
        elif wrapper == 'clock':
            v = petl.clock(table)
        elif wrapper == 'cache':
            lim = sym.pick('limit', [None, 1, 2, 3, 4])
            v = pcache(table, n=lim)
        elif wrapper == 'wrap':
            v = petl.wrap(table)
        elif wrapper == 'teecsv':
            v = petl.teecsv(table, os.path.join(td, 't.csv'), write_header=sym.flag('write_header'))
        elif wrapper == 'teetsv':
            v = petl.teetsv(table, os.path.join(td, 't.tsv'))
        elif wrapper == 'teepickle':
            v = petl.teepickle(table, os.path.join(td, 't.p'), write_header=sym.flag('write_header'))
        elif wrapper == 'teetext':
            v = petl.teetext(table, os.path.join(td, 't.txt'), template='{f}|{g}\n', prologue='P\n', epilogue='E\n')
        elif wrapper == 'teehtml':
            v = petl.teehtml(table, os.path.join(td, 't.html'))
        else:
            raise ValueError(wrapper)
        got = [tuple(r) for r in v]
        _same(got, table, wrapper)
        got2 = [tuple(r) for r in v]
        _same(got2, table, wrapper + ' (second pass)')
        # partial consumption then a full pass (cache limits / batch boundaries)
        k = sym.choice('k', 3)
        it = iter(v)
        part = []
        for _ in range(k):
            try:
                part.append(tuple(next(it)))
            except StopIteration:
                break
        it = None
        _same(part, table[:len(part)], wrapper + ' (partial pass)')
        _same([tuple(r) for r in v], table, wrapper + ' (pass after an abandoned one)')
        if wrapper == 'clock':
            check(v.time >= 0, 'clock time')


def tee_bytes(sym, fmt, N, ragged, kind):
    """After full consumption the tee target holds byte-for-byte what to* writes."""
    table = _table(sym, N, ragged, text=True)
    with private_tempdir() as td:
        def target(name):
            if kind == 'memory':
                return petl.MemorySource()
            return os.path.join(td, name + ('.gz' if kind == 'gz' else ''))

        def raw(src):
            if kind == 'memory':
                return src.getvalue()
            data = open(src, 'rb').read()
            if kind == 'gz':
                import gzip
                return gzip.decompress(data)
            return data
        a, b = target('tee'), target('to')
        if fmt in ('csv', 'tsv'):
            wh = sym.flag('write_header')
            enc = sym.pick('encoding', ['utf-8', 'utf-16', 'latin-1'])
            if enc == 'latin-1':
                table = [[c if not isinstance(c, str) else c.replace('€', 'E') for c in r] for r in table]
            tee, to = (petl.teecsv, petl.tocsv) if fmt == 'csv' else (petl.teetsv, petl.totsv)
            kw = dict(encoding=enc, write_header=wh)
            if fmt == 'csv' and sym.flag('dialect'):
                kw.update(delimiter=';', quotechar="'")
            teeview = tee(table, a, **kw)
            list(teeview)
            to(table, b, **kw)
        elif fmt == 'pickle':
            wh = sym.flag('write_header')
            teeview = petl.teepickle(table, a, write_header=wh)
            list(teeview)
            petl.topickle(table, b, write_header=wh)
        elif fmt == 'text':
            kw = dict(template='{f}:{g}\n', encoding=sym.pick('encoding', ['utf-8', 'utf-16']))
            if sym.flag('prologue'):
                kw['prologue'] = 'BEGIN\n'
            if sym.flag('epilogue'):
                kw['epilogue'] = 'END\n'
            teeview = petl.teetext(table, a, **kw)
            list(teeview)
            petl.totext(table, b, **kw)
        elif fmt == 'html':
            kw = dict(encoding=sym.pick('encoding', ['utf-8', 'latin-1']))
            if sym.flag('caption'):
                kw['caption'] = 'cap<t>'
            if sym.flag('representation'):
                kw['vrepr'] = repr
            if sym.flag('lineterminator'):
                kw['lineterminator'] = '\r\n'
            if sym.flag('index_header'):
                kw['index_header'] = True
            if sym.flag('truncate'):
                kw['truncate'] = 3
            teeview = petl.teehtml(table, a, **kw)
            list(teeview)
            petl.tohtml(table, b, **kw)
        else:
            raise ValueError(fmt)
        check(raw(a) == raw(b), 'tee target differs from what to* writes', fmt, raw(a), raw(b))
        list(teeview)          # a second full pass rewrites the target with the same bytes
        check(raw(a) == raw(b), 'tee target differs from what to* writes after a second pass', fmt, raw(a), raw(b))


# --------------------------------------------------------------------------
BOUNDS = {
    'quick': 'transparency: n in [0,3] rows with symbolic None|int cells, ragged rows (0..3 cells), progress batch sizes 1..3, cache '
             'limits {None,1..4}, clock steps 0/1 (zero elapsed time), two full passes, a partial pass of 0..2 rows and a pass after '
             'it; bytes: n in [0,2] rows of text cells from a pool (delimiters, quotes, <&>, non-ASCII, newline, empty, None, int), '
             'ragged, write_header, encodings, dialect, template/prologue/epilogue, caption/vrepr/'
             'lineterminator, targets path/.gz/MemorySource',
    'thorough': 'one more row',
}
OUTSIDE = 'the real wall clock (ClockStub); tee views iterated by two iterators at once (they write to one sink by design)'
STUBS = ['ClockStub', 'private temp dir (real files)']
ASSUMPTIONS = ['text cells realise at the C boundary (bounded enumeration)']
RULE = 'Jobs case-split (wrapper/format, ragged, target kind); rows, flags and arguments solver-chosen.'

WRAPPERS = ['progress', 'log_progress', 'clock', 'cache', 'wrap', 'teecsv', 'teetsv', 'teepickle', 'teetext', 'teehtml']


def jobs(tier):
    q = tier == 'quick'
    N = 3 if q else 4
    B = 200 if q else 1500
    out = []
    for w in WRAPPERS:
        for ragged in (False, True):

            out.append(dict(name='transparent/%s/ragged=%d' % (w, ragged), func='transparent',
                            params=dict(wrapper=w, N=N - ragged, ragged=ragged), budget=B))
    for fmt in ('csv', 'tsv', 'pickle', 'text', 'html'):
        for kind in ('path', 'gz', 'memory'):
            for ragged in (False, True):

                out.append(dict(name='bytes/%s/%s/ragged=%d' % (fmt, kind, ragged), func='tee_bytes',
                                params=dict(fmt=fmt, N=2 if q else 3, ragged=ragged, kind=kind), budget=B))
    for name in ('cache-all', 'cache-1', 'cache-2', 'cache-3'):
        out.append(dict(name='interleaved/%s' % name, module='props.c01', func='catalogue_view',
                        params=dict(name=name, R=2, L=6, nits=2, nsym=0, renew0=True), budget=B, per_path=20))
    return out
