"""C05 - sort / mergesort: stable ordered permutation under every buffering
strategy.  Tagged rows + verification-style oracle (DESIGN 4/C05)."""
import petl
import petl.config

from engine.ref import ref_eq, ref_lt
from engine.shim import assume, check
from engine.stubs import pickle_stub, private_tempdir

from .common import cell, nrows

PROPERTY = 'C05'


def _key_of(row, keyform):
    """The key the *documentation* says is compared for this row."""
    if keyform == 'single':          # header ('t','k'): key 'k', missing -> None
        return row[1] if len(row) > 1 else None
    if keyform == 'compound':        # header ('t','k','j'): key ('k','j')
        return (row[1] if len(row) > 1 else None, row[2] if len(row) > 2 else None)
    if keyform == 'compound-rev':    # header ('t','k','j'): key ('j','k') - not in header order
        return (row[2] if len(row) > 2 else None, row[1] if len(row) > 1 else None)
    if keyform == 'none':            # whole row, lexical
        return tuple(row)
    raise ValueError(keyform)


def _mk_rows(sym, n, keyform, dom, ragged, prefix='r'):
    rows = []
    for i in range(n):
        tag = '%s%d' % (prefix, 9 - i)              # tags decrease with the input position: native row order != input order
        if keyform in ('compound', 'compound-rev'):
            row = [tag, cell(sym, '%s%d.k' % (prefix, i), dom), cell(sym, '%s%d.j' % (prefix, i), dom)]
            if ragged:
                ln = sym.choice('%s%d.len' % (prefix, i), 3) + 1   # 1..3 cells
                row = row[:ln]
        elif keyform == 'none':
            # whole-row sort: key cell first so that it dominates; tag breaks ties
            row = [cell(sym, '%s%d.k' % (prefix, i), dom), tag]
        else:
            row = [tag, cell(sym, '%s%d.k' % (prefix, i), dom)]
            if ragged and sym.flag('%s%d.short' % (prefix, i)):
                row = [tag]
        rows.append(row)
    return rows


def _header(keyform):
    return {'single': ['t', 'k'], 'compound': ['t', 'k', 'j'], 'compound-rev': ['t', 'k', 'j'], 'none': ['k', 't']}[keyform]


def _keyarg(keyform):
    return {'single': 'k', 'compound': ('k', 'j'), 'compound-rev': ('j', 'k'), 'none': None}[keyform]


def _verify_sorted(out, inrows, keyform, reverse, what):
    """out: data rows (tuples) produced; inrows: the input data rows in input
    order.  Checks permutation (by identity of tags), order and stability."""
    tagpos = 1 if keyform == 'none' else 0
    check(len(out) == len(inrows), what + ': row count', len(out), len(inrows))
    pos = {}
    for i, r in enumerate(inrows):
        pos[r[tagpos]] = i
    seen = []
    for r in out:
        check(len(r) > tagpos and r[tagpos] in pos, what + ': unknown row', r)
        i = pos[r[tagpos]]
        check(i not in seen, what + ': duplicated row', r)
        seen.append(i)
        src = inrows[i]
        check(len(r) == len(src), what + ': row length changed', r, src)
        for a, b in zip(r, src):
            check(a is b or a == b, what + ': cell changed', r, src)
    for x in range(len(seen) - 1):
        ka = _key_of(inrows[seen[x]], keyform)
        kb = _key_of(inrows[seen[x + 1]], keyform)
        if reverse:
            check(not ref_lt(ka, kb), what + ': not non-increasing', ka, kb)
        else:
            check(not ref_lt(kb, ka), what + ': not non-decreasing', ka, kb)
        if ref_eq(ka, kb):
            check(seen[x] < seen[x + 1], what + ': equal keys not in input order', seen)


def sort_cfg(sym, N, keyform, dom, ragged, bs, reverse, cache, exact_n=None, passes=2):
    """sort() under one buffering configuration; n, keys symbolic."""
    n = nrows(sym, 'n', N, exact_n)
    inrows = _mk_rows(sym, n, keyform, dom, ragged)
    table = [_header(keyform)] + inrows
    with pickle_stub(), private_tempdir() as td:
        view = petl.sort(table, key=_keyarg(keyform), reverse=reverse, buffersize=bs,
                         tempdir=td, cache=cache)
        for p in range(passes):
            out = [tuple(r) for r in view]
            check(len(out) >= 1 and out[0] == tuple(_header(keyform)), 'header', out[:1])
            _verify_sorted(out[1:], inrows, keyform, reverse, 'pass %d' % (p + 1))
        del view


def sort_config_default(sym, N, keyform, dom, reverse):
    """buffersize=None takes petl.config.sort_buffersize (symbolic choice)."""
    n = nrows(sym, 'n', N)
    inrows = _mk_rows(sym, n, keyform, dom, False)
    table = [_header(keyform)] + inrows
    cfg = sym.pick('config.sort_buffersize', [None, 1, 2, N, N + 1])
    saved = petl.config.sort_buffersize
    petl.config.sort_buffersize = cfg
    try:
        with pickle_stub(), private_tempdir() as td:
            view = petl.sort(table, key=_keyarg(keyform), reverse=reverse, tempdir=td)
            out = [tuple(r) for r in view]
            _verify_sorted(out[1:], inrows, keyform, reverse, 'config default')
            del view
    finally:
        petl.config.sort_buffersize = saved


def mergesort_eq(sym, N1, N2, N3, keyform, dom, reverse, bs, presorted=False):
    """mergesort(t1, t2[, t3], key) == sort(cat(t1, t2[, t3]), key): verified
    directly against the definition of the right-hand side (ordered, stable in
    cat order, permutation)."""
    ns = [nrows(sym, 'n1', N1), nrows(sym, 'n2', N2)]
    if N3 is not None:
        ns.append(nrows(sym, 'n3', N3))
    hdr = _header(keyform)
    tables, allrows = [], []
    for ti, n in enumerate(ns):
        rws = _mk_rows(sym, n, keyform, dom, False, prefix='abc'[ti])
        if presorted:
            for x in range(len(rws) - 1):
                ka, kb = _key_of(rws[x], keyform), _key_of(rws[x + 1], keyform)
                assume(not ref_lt(ka, kb) if reverse else not ref_lt(kb, ka))
        tables.append([hdr] + rws)
        allrows.extend(rws)
    with pickle_stub(), private_tempdir() as td:
        view = petl.mergesort(*tables, key=_keyarg(keyform), reverse=reverse, buffersize=bs,
                              tempdir=td, presorted=presorted)
        for p in range(2):
            out = [tuple(r) for r in view]
            check(len(out) >= 1 and out[0] == tuple(hdr), 'header', out[:1])
            _verify_sorted(out[1:], allrows, keyform, reverse, 'mergesort pass %d' % (p + 1))
        del view


def mergesort_fields(sym, N1, N2, dom, reverse):
    """mergesort(t1, t2, key) == sort(cat(t1, t2), key) when the second table has its fields in another order, an extra
    field, and short rows (cells are matched to fields by name, as cat does)."""
    n1, n2 = nrows(sym, 'n1', N1), nrows(sym, 'n2', N2)
    h1, h2 = ['t', 'k'], ['x', 'k', 't']
    r1 = [['a%d' % (9 - i), cell(sym, 'a%d.k' % i, dom)] for i in range(n1)]
    r2 = []
    for i in range(n2):
        row = ['X%d' % i, cell(sym, 'b%d.k' % i, dom), 'b%d' % (9 - i)]
        ln = sym.choice('b%d.len' % i, 3) + 1               # 1..3 cells
        r2.append(row[:ln])
    with pickle_stub(), private_tempdir() as td:
        got = [tuple(r) for r in petl.mergesort([h1] + r1, [h2] + r2, key='k', reverse=reverse, tempdir=td)]
        exp = [tuple(r) for r in petl.sort(petl.cat([h1] + r1, [h2] + r2), 'k', reverse=reverse, tempdir=td)]
    check(got[0] == ('t', 'k', 'x'), 'mergesort header (union of the fields)', got[0])
    check(len(got) == len(exp), 'mergesort != sort(cat): row count', got, exp)
    for g, e in zip(got, exp):
        check(len(g) == len(e) and all((a is b) or a == b for a, b in zip(g, e)), 'mergesort != sort(cat(...))', got, exp)
    # and cat itself matches cells to fields by name
    for r in got[1:]:
        check(r[0] is None or str(r[0])[0] in 'ab', 'a cell landed under the wrong field', r)


# --------------------------------------------------------------------------

BOUNDS = {
    'quick': 'n in [0,3] data rows; keys: unbounded int, None|int, None|int|str(len<=1); key forms single/'
             'compound/whole-row; ragged rows (missing key cells); buffersize in {None,1,..,4}; reverse; cache; '
             '2 passes; cross-type representative keys (12 values over every type rung) with n<=3/2; compound key given in non-header '
             'order; mergesort of 2 tables (<=2 rows each) and 3 tables (<=1,2,1 rows), of tables with different field orders and short rows',
    'thorough': 'as quick with n in [0,4] for sort on int / None|int keys (buffersize in {None,1..5}) and mergesort 2x(<=3 rows), '
                '3 tables (<=2 rows each)',
}
OUTSIDE = ('tables with more rows than the bound; strings longer than 1 char in keys; floats/Decimal/dates in keys '
           '(ordering of those is C04); real pickle serialisation of rows (PickleStub)')
STUBS = ['PickleStub (pickle in petl.transform.sorts: dump/load of rows kept in memory, real temp files)',
         'private temp dir per path']
ASSUMPTIONS = ['pickle.load(pickle.dump(row)) == row (PickleStub)',
               'mergesort with presorted=True: each input assumed sorted by the key under the reference order']
RULE = 'Jobs case-split (key form, key domain, ragged, buffersize, reverse, cache); row count and all keys symbolic.'


def jobs(tier):
    N = 3 if tier == 'quick' else 4
    out = []
    doms = {'single': ['I', 'O', 'M', 'X'], 'compound': ['Od2', 'O'], 'compound-rev': ['Od2'], 'none': ['I', 'O']}
    for keyform in ('single', 'compound', 'compound-rev', 'none'):
        for dom in doms[keyform]:
            for ragged in ((False, True) if keyform != 'none' else (False,)):
                if ragged and dom not in ('I', 'Od2'):
                    continue
                for bs in [None] + list(range(1, N + 2)):
                    if keyform.startswith('compound') and bs == N + 1:
                        continue
                    for reverse in (False, True):
                        for cache in (True, False):
                            if (not cache and dom in ('M', 'X')) or (dom == 'X' and bs not in (None, 1, 2)) or \
                                    (tier == 'thorough' and not cache and bs not in (None, 1)):
                                continue
                            budget = 90
                            if tier == 'thorough':
                                budget = 900
                            Nj = N if dom != 'X' else (3 if bs is None else 2)
                            if tier == 'thorough' and not (keyform in ('single', 'none') and dom in ('I', 'O') and not ragged):
                                Nj = min(Nj, 3)       # n<=4 for int / None|int keys; the other domains stay at n<=3
                            if keyform.startswith('compound'):
                                Nj = N - 1        # two symbolic cells per row
                            out.append(dict(
                                name='sort/%s/%s/%s/bs=%s/rev=%d/cache=%d' % (
                                    keyform, dom, 'ragged' if ragged else 'rect', bs, reverse, cache),
                                func='sort_cfg',
                                params=dict(N=Nj, keyform=keyform, dom=dom, ragged=ragged, bs=bs,
                                            reverse=reverse, cache=cache),
                                budget=budget,
                                bounds='n<=%d, keys %s' % (Nj, dom)))
    for keyform, dom in (('single', 'O'), ('compound', 'Od2')):
        for reverse in (False, True):
            out.append(dict(name='sort-config-default/%s/%s/rev=%d' % (keyform, dom, reverse),
                            func='sort_config_default',
                            params=dict(N=N - 1, keyform=keyform, dom=dom, reverse=reverse),
                            budget=120 if tier == 'quick' else 600, bounds='n<=%d' % (N - 1)))
    shapes = [(2, 2, None), (1, 2, 1)] if tier == 'quick' else [(3, 3, None), (2, 2, 2)]
    for (a, b, c) in shapes:
        for keyform, dom in (('single', 'I'), ('single', 'O'), ('compound', 'Od2'), ('none', 'I'), ('none', 'O')):
            for reverse in (False, True):
                for bs in (None, 1, 2):
                    for presorted in (False, True):
                        if presorted and bs is not None:
                            continue
                        if keyform == 'compound' and tier == 'quick' and (a, b, c) != (1, 2, 1):
                            continue
                        sa, sb, sc = a, b, c
                        if keyform == 'compound' and tier == 'quick':
                            sa, sb, sc = 1, 1, 1
                        out.append(dict(
                            name='mergesort/%s/%s/%dx%dx%s/bs=%s/rev=%d/presorted=%d' % (
                                keyform, dom, sa, sb, sc, bs, reverse, presorted),
                            func='mergesort_eq',
                            params=dict(N1=sa, N2=sb, N3=sc, keyform=keyform, dom=dom, reverse=reverse, bs=bs,
                                        presorted=presorted),
                            budget=120 if tier == 'quick' else 900,
                            bounds='tables %s rows' % ((sa, sb, sc),)))
    for reverse in (False, True):
        out.append(dict(name='mergesort-fields/O/rev=%d' % reverse, func='mergesort_fields',
                        params=dict(N1=2, N2=2 if tier == 'quick' else 3, dom='O', reverse=reverse),
                        budget=120 if tier == 'quick' else 900))
    return out
