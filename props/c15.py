"""C15 - writing a table and reading it back returns the same table.

Text cells are chosen by solver-decided forks over an alphabet of special
characters (they cross into _csv/_json/_pickle/codecs, which are C code: the
claim is exhaustive enumeration of the bounded space, certified exhausted)."""
import bz2
import csv
import datetime
import gzip
import json
import os
from decimal import Decimal

import petl

from engine.shim import assume, check
from engine.stubs import private_tempdir

PROPERTY = 'C15'

SIGMA = [',', '"', "'", '\r', '\n', '\x00', 'a', '\xe9', '\t', ';', '|', ' ']
POOL = ['', 'x', 'a,b', 'q"q', 'l1\nl2', '\xe9€']
QUOTING = {'minimal': csv.QUOTE_MINIMAL, 'all': csv.QUOTE_ALL, 'nonnumeric': csv.QUOTE_NONNUMERIC, 'none': csv.QUOTE_NONE}


def _source(td, kind, ext):
    if kind == 'path':
        return os.path.join(td, 'f.' + ext)
    if kind == 'gz':
        return os.path.join(td, 'f.%s.gz' % ext)
    if kind == 'bz2':
        return os.path.join(td, 'f.%s.bz2' % ext)
    if kind == 'memory':
        return petl.MemorySource()
    raise ValueError(kind)


def _reader(src):
    if isinstance(src, petl.MemorySource):
        return petl.MemorySource(src.getvalue())
    return src


def _raw(src):
    if isinstance(src, petl.MemorySource):
        return src.getvalue()
    data = open(src, 'rb').read()
    if src.endswith('.gz'):
        return gzip.decompress(data)
    if src.endswith('.bz2'):
        return bz2.decompress(data)
    return data


def _text(v):
    return '' if v is None else str(v)


def _cells(sym, n, L, ragged, encoding, allow_none=True, small=False):
    rows = []
    for i in range(n):
        row = []
        for j in range(2):
            if i == 0 and j == 0 and L == 0:
                c = sym.pick('hot', ['', 'a,"\n', '\xe9'])
            elif i == 0 and j == 0:
                c = sym.enumstr('hot', L, SIGMA)             # the enumerated cell
            elif small == 'fixed':
                c = POOL[(i + j + 2) % len(POOL)]
                row.append(c)
                continue
            else:
                pool = POOL if small is False else [POOL[(i + j) % len(POOL)], POOL[(i + 2 * j + 3) % len(POOL)]]
                k = sym.choice('r%dc%d' % (i, j), len(pool) + (2 if allow_none else 0))
                c = pool[k] if k < len(pool) else (None if k == len(pool) else 7 + i)
            row.append(c)
        if ragged:
            ln = sym.pick('len%d' % i, [0, 1, 2, 3] if not small else [0, 1, 3])     # cells in the row (header has 2)
            row = (row + ['extra'])[:ln]
        rows.append(row)
    if encoding == 'latin-1':
        for r in rows:
            for c in r:
                assume(not isinstance(c, str) or all(ord(ch) < 256 for ch in c))
    return rows


def csv_roundtrip(sym, fmt, encoding, kind, delimiter, quotechar, quoting, L, N, ragged):
    if encoding == 'utf-16' and kind == 'bz2':
        sym.known('KF-C15-utf16-bz2-nobom', True)
    n = sym.choice('n', N + 1)
    none_ok = quoting != 'nonnumeric'
    rows = _cells(sym, n, L, ragged, encoding, allow_none=none_ok, small=('fixed' if (N == 1 and not ragged) else True))
    hdr = ['h1', 'h2'] if quoting == 'none' else ['h1', 'h,2']
    if encoding == 'utf-16' and kind == 'bz2':
        sym.known('KF-C15-utf16-bz2-nobom', True)
    table = [hdr] + rows
    write_header = sym.flag('write_header')
    kw = {}
    if fmt == 'csv':
        kw = dict(delimiter=delimiter, quotechar=quotechar, quoting=QUOTING[quoting])
    if quoting == 'nonnumeric':
        # the csv module reads unquoted fields back as floats: keep to text cells (statement: as text)
        for r in rows:
            for c in r:
                assume(isinstance(c, str))
        assume(all(len(r) > 0 for r in rows))
    if quoting == 'none':
        special = set([kw.get('delimiter', '\t'), kw.get('quotechar', '"'), '\r', '\n', '\x00'])
        for r in [hdr] + rows:
            for c in r:
                assume(not any(ch in special for ch in _text(c)))
        assume(all(len(r) > 0 for r in rows))                 # QUOTE_NONE cannot write an empty row / single empty field
        assume(all(not (len(r) == 1 and _text(r[0]) == '') for r in rows))
    if fmt == 'tsv':
        to, frm, app = petl.totsv, petl.fromtsv, petl.appendtsv
    else:
        to, frm, app = petl.tocsv, petl.fromcsv, petl.appendcsv
    with private_tempdir() as td:
        src = _source(td, kind, fmt)
        to(table, src, encoding=encoding, write_header=write_header, **kw)
        if write_header:
            back = [tuple(r) for r in frm(_reader(src), encoding=encoding, **kw)]
        else:
            back = [tuple(r) for r in frm(_reader(src), encoding=encoding, header=hdr, **kw)]
        exp = [tuple(hdr)] + [tuple(_text(c) for c in r) for r in rows]
        check(back == exp, 'csv round trip', back, exp, write_header)


def csv_append(sym, fmt, encoding, kind, L):
    """to* then append* == to*(cat): bytes on plain/memory targets, content on compressed ones."""
    if encoding == 'utf-16' and kind == 'bz2':
        sym.known('KF-C15-utf16-bz2-nobom', True)
    if encoding == 'utf-16' and kind == 'gz':
        sym.known('KF-C15-utf16-gz-append-bom', True)
    n1, n2 = sym.choice('n1', 3), sym.choice('n2', 3)
    hot = sym.enumstr('hot', L, SIGMA)
    if encoding == 'latin-1':
        assume(all(ord(ch) < 256 for ch in hot))
    hdr = ['h1', 'h2']
    if encoding == 'utf-16' and kind == 'bz2':
        sym.known('KF-C15-utf16-bz2-nobom', True)
    if encoding == 'utf-16' and kind == 'gz':
        sym.known('KF-C15-utf16-gz-append-bom', True)
    t1 = [hdr] + [[hot if i == 0 else 'a%d' % i, '\xe9%d' % i] for i in range(n1)]
    t2 = [hdr] + [['b%d' % i, hot if i == 0 else None] for i in range(n2)]
    write_header = sym.flag('write_header')
    to, frm, app = (petl.totsv, petl.fromtsv, petl.appendtsv) if fmt == 'tsv' else (petl.tocsv, petl.fromcsv, petl.appendcsv)
    with private_tempdir() as td:
        src = _source(td, kind, fmt)
        to(t1, src, encoding=encoding, write_header=write_header)
        app(t2, src, encoding=encoding)
        whole = _source(td, 'path', 'whole.' + fmt) if kind != 'memory' else petl.MemorySource()
        to([hdr] + t1[1:] + t2[1:], whole, encoding=encoding, write_header=write_header)
        check(_raw(src) == _raw(whole), 'to* + append* differs (bytes) from to*(concatenation)', _raw(src), _raw(whole))
        back = [tuple(r) for r in frm(_reader(src), encoding=encoding, header=None if write_header else hdr)]
        exp = [tuple(hdr)] + [tuple(_text(c) for c in r) for r in t1[1:] + t2[1:]]
        check(back == exp, 'to* + append* read back', back, exp)


def rewrite(sym, fmt, kind):
    """to* replaces what the target held (also an in-memory source written twice), and a from* view created before the
    rewrite reads the new contents on its next pass."""
    n1, n2 = sym.choice('n1', 3), sym.choice('n2', 3)
    hdr = ['f', 'g']
    t1 = [hdr] + [['a%d' % i, 'x'] for i in range(n1)]
    t2 = [hdr] + [['b%d' % i, 'y,"z"'] for i in range(n2)]
    if fmt == 'json':
        assume_rows = n1 >= 1 and n2 >= 1
        if not assume_rows:
            return
    with private_tempdir() as td:
        src = _source(td, kind, fmt)
        w = {'csv': petl.tocsv, 'tsv': petl.totsv, 'pickle': petl.topickle, 'json': petl.tojson}[fmt]
        r = {'csv': petl.fromcsv, 'tsv': petl.fromtsv, 'pickle': petl.frompickle, 'json': petl.fromjson}[fmt]
        w(t1, src)
        view = r(_reader(src)) if kind != 'memory' else None
        first = [tuple(x) for x in view] if view is not None else None
        w(t2, src)
        back = [tuple(x) for x in r(_reader(src))]
        check(back == [tuple(x) for x in t2], 'second to* on the same target did not replace its contents', back, t2)
        if view is not None:
            check(first == [tuple(x) for x in t1], 'first read', first)
            again = [tuple(x) for x in view]
            check(again == [tuple(x) for x in t2], 'a from* view does not reflect the rewritten source on its next pass', again, t2)


TYPED_ALL = [None, 0, 2.5, 'text', b'by\x00tes', datetime.date(2020, 1, 2), -3, True, 'text', '', b'by\x00tes', datetime.date(2020, 1, 2), datetime.datetime(2020, 1, 2, 3, 4, 5),
         Decimal('1.50'), (1, 'a'), [1, None], float('inf')]


def pickle_roundtrip(sym, kind, N, reps=None):
    TYPED = TYPED_ALL if reps is None else TYPED_ALL[:reps]
    n = sym.choice('n', N + 1)
    hdr = ['a', 'b']
    rows = []
    for i in range(n):
        row = [TYPED[sym.choice('r%dc0' % i, len(TYPED))], TYPED_ALL[sym.choice('r%dc1' % i, 5)]]
        ln = sym.choice('len%d' % i, 4)
        rows.append((row + ['extra'])[:ln])
    write_header = sym.flag('write_header')
    nappend = sym.choice('appends', 3)
    with private_tempdir() as td:
        src = _source(td, kind, 'p')
        petl.topickle([hdr] + rows, src, write_header=write_header)
        extra = []
        for a in range(nappend):
            shared = 'app%d' % a
            # two appended rows holding the very same cell objects (a pickler that keeps a memo across rows emits
            # back-references for them; a reader has to resolve those within the appended part)
            more = [[TYPED[(a + 3) % len(TYPED)], shared], [TYPED[(a + 3) % len(TYPED)], shared]]
            petl.appendpickle([hdr] + more, src)
            extra += more
        back = list(petl.frompickle(_reader(src)))
        exp = ([tuple(hdr)] if write_header else []) + [tuple(r) for r in rows + extra]
        check(len(back) == len(exp), 'pickle round trip: row count', back, exp)
        for b, e in zip(back, exp):
            check(tuple(b) == e and [type(x) for x in b] == [type(x) for x in e], 'pickle round trip is not exact', b, e)


JSONV = [None, 0, -3, 2.5, True, False, 'text', '', '\xe9"\\\n', [1, 'a'], {'k': None}]


def json_roundtrip(sym, form, kind, L, N):
    n = sym.choice('n', N) + 1                     # statement: at least one data row
    hdr = ['f', 'g h', '\xe9']
    hot = sym.enumstr('hot', L, SIGMA)
    rows = []
    for i in range(n):
        row = [hot if i == 0 else JSONV[sym.choice('r%dc0' % i, len(JSONV))],
               JSONV[sym.choice('r%dc1' % i, len(JSONV))] if L <= 1 else JSONV[3 + i], i]
        ln = sym.choice('len%d' % i, 3) + 1 if form != 'arrays' else 3
        if i == 0:
            ln = 3                                 # the first record carries every field name
        rows.append(row[:ln])
    with private_tempdir() as td:
        src = _source(td, kind, 'json')
        if form == 'array':
            petl.tojson([hdr] + rows, src)
            back = [tuple(r) for r in petl.fromjson(_reader(src), header=hdr)]
            back2 = [tuple(r) for r in petl.fromjson(_reader(src))]
        elif form == 'lines':
            petl.tojson([hdr] + rows, src, lines=True)
            back = [tuple(r) for r in petl.fromjson(_reader(src), lines=True, header=hdr)]
            back2 = [tuple(r) for r in petl.fromjson(_reader(src), lines=True)]
        else:
            oh = sym.flag('output_header')
            petl.tojsonarrays([hdr] + rows, src, output_header=oh)
            got = json.loads(_raw(src).decode('utf-8'))
            exp = ([hdr] if oh else []) + rows
            check(got == exp, 'tojsonarrays content', got, exp)
            return
        exp = [tuple(hdr)] + [tuple((r + [None] * 3)[:3]) for r in rows]
        check(back == exp, 'json round trip (header given)', back, exp)
        check(back2 == exp, 'json round trip (header from the records)', back2, exp)


# --------------------------------------------------------------------------
BOUNDS = {
    'quick': 'csv/tsv: n in [0,2] rows x 2 fields; one enumerated cell over {, " \' CR LF NUL a e-acute TAB ; | space}^(<=2), the other '
             'cells from a pool incl. None and an int; ragged rows of 0..3 cells; write_header / header= ; encodings utf-8, latin-1, '
             'utf-16 x sources path/.gz/.bz2/MemorySource with default dialect; utf-8/path with delimiter in {, ; | TAB} x quotechar '
             'in {" \'} x 4 quoting modes (enumerated cell <=1 char); append sequences (bytes and content); pickle: typed cells from 14 '
             'representatives, ragged, 0..2 appends, 4 source kinds; json array/lines/arrays with JSON-typed cells',
    'thorough': 'enumerated cell up to 3 characters (default dialect, utf-8, path/.gz/memory), 2 characters otherwise; all dialects over 2 '
                'ragged rows; pickle/json over 2 rows',
}
OUTSIDE = ('strings longer than the bound or with other characters; custom lineterminator / doublequote / escapechar (statement); '
           'QUOTE_NONE with cells containing special characters, QUOTE_NONNUMERIC with non-text cells (the csv module itself is not '
           'lossless there); compression levels')
STUBS = ['private temp dir (real files, real gzip/bz2/codecs/csv/json/pickle)']
ASSUMPTIONS = ['values realise at the C boundary: the solver enumerates the bounded value space (exhaustion certified), flags consumed by '
               'petl\'s Python code are forks']
RULE = 'Jobs case-split (format, encoding, source kind, dialect); cells, row counts, lengths, header flags, append counts solver-chosen.'


def jobs(tier):
    q = tier == 'quick'
    B = 300 if q else 2400
    out = []
    L = 2 if q else 3
    for enc in ('utf-8', 'latin-1', 'utf-16'):
        for kind in ('path', 'gz', 'bz2', 'memory'):
            Lj = L if (q or (enc == 'utf-8' and kind in ('path', 'gz', 'memory'))) else 2
            out.append(dict(name='csv/default/%s/%s/L<=%d' % (enc, kind, Lj), func='csv_roundtrip',
                            params=dict(fmt='csv', encoding=enc, kind=kind, delimiter=',', quotechar='"', quoting='minimal',
                                        L=Lj, N=1, ragged=False), budget=B))
            if not q or kind == 'path' or enc == 'utf-8':
                out.append(dict(name='csv/default/%s/%s/rows' % (enc, kind), func='csv_roundtrip',
                                params=dict(fmt='csv', encoding=enc, kind=kind, delimiter=',', quotechar='"', quoting='minimal',
                                            L=0 if q else 1, N=2, ragged=True), budget=B))
            out.append(dict(name='append/csv/%s/%s' % (enc, kind), func='csv_append',
                            params=dict(fmt='csv', encoding=enc, kind=kind, L=1), budget=B))
        out.append(dict(name='tsv/%s/path' % enc, func='csv_roundtrip',
                        params=dict(fmt='tsv', encoding=enc, kind='path', delimiter=None, quotechar=None, quoting='minimal',
                                    L=L, N=1, ragged=False), budget=B))
        out.append(dict(name='append/tsv/%s/path' % enc, func='csv_append', params=dict(fmt='tsv', encoding=enc, kind='path', L=1),
                        budget=B))
    for delim in (',', ';', '|', '\t'):
        for qc in ('"', "'"):
            for quoting in QUOTING:
                out.append(dict(name='csv/dialect/%r/%r/%s' % (delim, qc, quoting), func='csv_roundtrip',
                                params=dict(fmt='csv', encoding='utf-8', kind='path', delimiter=delim, quotechar=qc,
                                            quoting=quoting, L=1, N=1 if q else 2, ragged=True), budget=B))
    for kind in ('path', 'gz', 'bz2', 'memory'):
        out.append(dict(name='pickle/%s' % kind, func='pickle_roundtrip',
                        params=dict(kind=kind, N=1 if q else 2, reps=(None if kind == 'path' else 6) if q else 6), budget=B))
        for form in ('array', 'lines', 'arrays'):
            out.append(dict(name='json-%s/%s' % (form, kind), func='json_roundtrip',
                            params=dict(form=form, kind=kind, L=1, N=1 if q else 2), budget=B))
    for fmt in ('csv', 'tsv', 'pickle', 'json'):
        for kind in ('path', 'gz', 'memory'):
            out.append(dict(name='rewrite/%s/%s' % (fmt, kind), func='rewrite', params=dict(fmt=fmt, kind=kind), budget=B))
    out.append(dict(name='json-array/path/L<=%d' % L, func='json_roundtrip', params=dict(form='array', kind='path', L=L, N=1),
                    budget=B))
    return out
