import argparse
import os
import sys

from . import pool


def main():
    ap = argparse.ArgumentParser()
    ap.add_argument('cmd', choices=['check'])
    ap.add_argument('prop')
    ap.add_argument('--tier', default=os.environ.get('VERIF_TIER', 'quick'), choices=['quick', 'thorough'])
    ap.add_argument('--only', default=None, help='regex on job names (debugging; evidence records the filter)')
    ap.add_argument('-v', action='store_true')
    a = ap.parse_args()
    seed = int(os.environ.get('VERIF_SEED', '0') or 0)
    sys.exit(pool.check_property(a.prop.upper(), a.tier, seed=seed, only=a.only, verbose=a.v))


if __name__ == '__main__':
    main()
