"""Job pool, known-findings protocol, evidence writer (DESIGN 2.1, 6, 7)."""
import concurrent.futures
import importlib
import json
import os
import re
import shutil
import subprocess
import sys
import tempfile
import time

VERIF = os.path.dirname(os.path.dirname(os.path.abspath(__file__)))
REPO = os.environ.get('PETL_REPO', '/repo')
PLAIN_PY = '/venv/bin/python'
NPROC = int(os.environ.get('VERIF_JOBS', '0')) or min(16, os.cpu_count() or 4)
KF_FILE = os.path.join(VERIF, 'known_findings.txt')


def child_env():
    env = dict(os.environ)
    env['PYTHONPATH'] = VERIF + os.pathsep + REPO
    env['PYTHONDONTWRITEBYTECODE'] = '1'
    env['PYTHONHASHSEED'] = '0'
    env.pop('PETL_VERIF', None)
    return env


# --------------------------------------------------------------------------
# known findings

def load_known_findings(prop):
    """Lines:  open: property=<id> id=<KFn> module=<m> func=<f> params=<json>
    values=<json> what=<text...>   |   fixed: property=<id> <commit> <what>"""
    out = []
    if not os.path.exists(KF_FILE):
        return out
    for line in open(KF_FILE):
        line = line.strip()
        if not line.startswith('open:'):
            continue
        m = re.match(r'open:\s+property=(\S+)\s+id=(\S+)\s+module=(\S+)\s+func=(\S+)\s+'
                     r'params=(\{.*?\})\s+values=(\[.*?\])\s+what=(.*)$', line)
        if not m:
            raise SystemExit('harness error: malformed known-findings line: ' + line)
        if m.group(1) != prop:
            continue
        out.append(dict(property=m.group(1), id=m.group(2), module=m.group(3), func=m.group(4),
                        params=json.loads(m.group(5)), values=json.loads(m.group(6)),
                        what=m.group(7)))
    return out


def fresh_replay(doc, keep_path=None):
    """Replay a model in a fresh plain interpreter (no CrossHair).  Returns
    (exitcode, output)."""
    if keep_path is None:
        fd, path = tempfile.mkstemp(suffix='.json', prefix='pv_rep_')
        os.close(fd)
    else:
        path = keep_path
    with open(path, 'w') as f:
        json.dump(doc, f, indent=1)
    try:
        p = subprocess.run([PLAIN_PY, '-m', 'engine.replay', path], cwd=VERIF, env=child_env(),
                           stdout=subprocess.PIPE, stderr=subprocess.STDOUT, timeout=300)
        return p.returncode, p.stdout.decode('utf-8', 'replace')
    except subprocess.TimeoutExpired:
        return 2, 'replay timed out'
    finally:
        if keep_path is None:
            os.unlink(path)


# --------------------------------------------------------------------------
# running jobs

_JOBSEQ = [0]


def _not_run(job, why):
    return dict(verdict='incomplete', paths=0, passed=0, pruned=0, nontrivial=0, validated=0, solver_queries=0,
                solver_s=0.0, cpu_s=0.0, samples=[], functions=[], exhausted=False, unknown=0, checks=0,
                disagreements=[], reasons=[why], name=job['name'], job_wall_s=0.0,
                spec=dict(module=job['module'], func=job['func'], params=job.get('params', {})),
                bounds=job.get('bounds', ''), budget=job.get('budget', 60.0))


def run_job(prop, job, active_kf, seed, scratch_root, deadline=None):
    name = job['name']
    if deadline is not None:
        left = deadline - time.time()
        if left < 15:
            return _not_run(job, 'not started: tier wall-clock limit reached')
        if job.get('budget', 60.0) > left:
            job = dict(job, budget=max(10.0, left - 5))
    _JOBSEQ[0] += 1
    safe = '%04d_' % _JOBSEQ[0] + re.sub(r'[^A-Za-z0-9_.=-]+', '_', name)[:110]
    scratch = os.path.join(scratch_root, safe)
    os.makedirs(scratch, exist_ok=True)
    spec = dict(module=job['module'], func=job['func'], params=job.get('params', {}),
                cpu_budget=job.get('budget', 60.0), per_path_timeout=job.get('per_path', 10.0),
                active_kf=sorted(active_kf), validate_every=job.get('validate_every', 1),
                max_paths=(int(os.environ['VERIF_SMOKE']) if os.environ.get('VERIF_SMOKE') else job.get('max_paths')),
                seed=seed, scratch=scratch,
                trace_functions=job.get('trace_functions', True))
    specf = os.path.join(scratch_root, safe + '.spec.json')
    resf = os.path.join(scratch_root, safe + '.res.json')
    with open(specf, 'w') as f:
        json.dump(spec, f)
    wall = spec['cpu_budget'] * 3 + 60       # generous: the watchdog only guards against a hung solver call
    t0 = time.time()
    env = child_env()
    env['TMPDIR'] = scratch
    try:
        p = subprocess.run([sys.executable, '-m', 'engine.worker', specf, resf], cwd=VERIF, env=env,
                           stdout=subprocess.PIPE, stderr=subprocess.STDOUT, timeout=wall)
        out = p.stdout.decode('utf-8', 'replace')
        if os.path.exists(resf):
            res = json.load(open(resf))
        else:
            res = dict(verdict='incomplete', paths=0, passed=0, pruned=0, nontrivial=0, validated=0,
                       solver_queries=0, solver_s=0.0, cpu_s=0.0, samples=[], functions=[],
                       exhausted=False, unknown=0, checks=0, disagreements=[],
                       reasons=['worker died rc=%s: %s' % (p.returncode, out[-1500:])],
                       worker_error=True)
    except subprocess.TimeoutExpired:
        res = dict(verdict='incomplete', paths=0, passed=0, pruned=0, nontrivial=0, validated=0,
                   solver_queries=0, solver_s=0.0, cpu_s=0.0, samples=[], functions=[],
                   exhausted=False, unknown=0, checks=0, disagreements=[],
                   reasons=['watchdog: killed after %.0fs wall' % wall])
    finally:
        shutil.rmtree(scratch, ignore_errors=True)
        for fpath in (specf, resf):
            try:
                os.unlink(fpath)
            except OSError:
                pass
    res['name'] = name
    res['job_wall_s'] = round(time.time() - t0, 2)
    res['spec'] = dict(module=spec['module'], func=spec['func'], params=spec['params'])
    res['bounds'] = job.get('bounds', '')
    res['budget'] = spec['cpu_budget']
    return res


def check_property(prop, tier, seed=0, only=None, verbose=False):
    t_start = time.time()
    mod = importlib.import_module('props.' + prop.lower())
    os.makedirs(os.path.join(VERIF, 'evidence'), exist_ok=True)
    os.makedirs(os.path.join(VERIF, 'replays'), exist_ok=True)

    # ---- known findings: replay each open witness first
    active, kf_hit = set(), []
    for kf in load_known_findings(prop):
        doc = dict(property=prop, job='witness-' + kf['id'], module=kf['module'], func=kf['func'],
                   params=kf['params'], values=kf['values'], active_kf=[])
        rc, out = fresh_replay(doc)
        if rc == 1:
            active.add(kf['id'])
            kf_hit.append(kf['id'])
            print('KNOWN-FINDING: property=%s %s %s' % (prop, kf['id'], kf['what']))
        else:
            print('note: known finding %s no longer reproduces (rc=%d); its region is not excluded'
                  % (kf['id'], rc))

    jobs = mod.jobs(tier)
    for j in jobs:
        j.setdefault('module', mod.__name__)
    if only:
        jobs = [j for j in jobs if re.search(only, j['name'])]
    names = [j['name'] for j in jobs]
    assert len(set(names)) == len(names), 'duplicate job names'
    order = sorted(range(len(jobs)), key=lambda i: (-jobs[i].get('budget', 60.0), (i * 7919 + seed) % 104729))
    scratch_root = tempfile.mkdtemp(prefix='pv_%s_' % prop)
    results = [None] * len(jobs)
    # tier wall-clock limit: jobs not started by then (or cut short) are reported incomplete, never as success
    limit = float(os.environ.get('VERIF_%s_WALL' % tier.upper(), '720' if tier == 'quick' else '2100'))
    deadline = t_start + limit
    try:
        with concurrent.futures.ThreadPoolExecutor(max_workers=NPROC) as ex:
            futs = {ex.submit(run_job, prop, jobs[i], active, seed, scratch_root, deadline): i for i in order}
            for fut in concurrent.futures.as_completed(futs):
                i = futs[fut]
                results[i] = fut.result()
                r = results[i]
                if verbose or r['verdict'] != 'confirmed':
                    print('  job %-60s %-10s paths=%d pruned=%d cpu=%.1fs %s' % (
                        r['name'], r['verdict'], r['paths'], r['pruned'], r.get('cpu_s', 0),
                        '; '.join(r.get('reasons', []))[:300]))
                    sys.stdout.flush()
    finally:
        shutil.rmtree(scratch_root, ignore_errors=True)

    # ---- refuted jobs: replay in a fresh plain interpreter before reporting
    violations, harness_errors = [], []
    for r in results:
        if r['verdict'] != 'refuted':
            if r.get('worker_error'):
                harness_errors.append(r['name'])
            continue
        import hashlib
        safe = re.sub(r'[^A-Za-z0-9_.=-]+', '_', r['name'])[:110] + '_' + hashlib.md5(r['name'].encode()).hexdigest()[:6]
        path = os.path.join(VERIF, 'replays', '%s__%s.json' % (prop, safe))
        doc = dict(property=prop, job=r['name'], module=r['spec']['module'], func=r['spec']['func'],
                   params=r['spec']['params'], values=r['counterexample']['values'],
                   active_kf=sorted(active), detail=r['counterexample']['detail'])
        rc, out = fresh_replay(doc, keep_path=path)
        r['fresh_replay_rc'] = rc
        if rc == 1:
            violations.append((r['name'], path, r['counterexample']['detail']))
        else:
            r['verdict'] = 'incomplete'
            r.setdefault('reasons', []).append(
                'counterexample did not reproduce in a fresh interpreter (rc=%d): engine disagreement' % rc)
            harness_errors.append(r['name'])

    wall = time.time() - t_start
    write_evidence(prop, tier, seed, mod, results, violations, kf_hit, wall, only)

    n_conf = sum(1 for r in results if r['verdict'] == 'confirmed')
    n_inc = sum(1 for r in results if r['verdict'] == 'incomplete')
    print('%s %s: %d jobs, %d confirmed (exhausted), %d incomplete, %d refuted; paths=%d queries=%d wall=%.0fs' % (
        prop, tier, len(results), n_conf, n_inc, len(violations),
        sum(r['paths'] for r in results), sum(r['solver_queries'] for r in results), wall))
    for name, path, detail in violations:
        print('VIOLATION property=%s replay=%s' % (prop, path))
        print('  job=%s :: %s' % (name, (detail or '').split('\n')[0][:400]))
    if violations:
        return 1
    if harness_errors:
        print('HARNESS-ERROR property=%s jobs=%s' % (prop, ','.join(harness_errors)))
        return 3
    return 0


def write_evidence(prop, tier, seed, mod, results, violations, kf_hit, wall, only):
    functions = sorted(set(f for r in results for f in r.get('functions', [])))
    samples = []
    for r in results:
        for s in r.get('samples', [])[:1]:
            samples.append(dict(job=r['name'], model=s))
    samples = samples[:40] or [dict(note='no passing path with an evaluated assertion')]
    jobs = []
    for r in results:
        jobs.append(dict(name=r['name'], func=r['spec']['func'], params=r['spec']['params'],
                         bounds=r.get('bounds', ''), verdict=r['verdict'], exhausted=r.get('exhausted', False),
                         paths=r['paths'], passed=r['passed'], pruned=r['pruned'],
                         nontrivial=r['nontrivial'], unknown_paths=r.get('unknown', 0),
                         assertions_evaluated=r.get('checks', 0),
                         concrete_replays_agreeing=r['validated'],
                         solver_queries=r['solver_queries'], solver_s=r['solver_s'],
                         cpu_s=r.get('cpu_s', 0.0), budget_s=r.get('budget'),
                         reasons=r.get('reasons', [])))
    all_confirmed = all(r['verdict'] == 'confirmed' for r in results) and bool(results)
    ev = dict(
        property_id=prop, tier=tier, seed=seed, level='model_checking',
        coverage=dict(
            states=sum(r['paths'] for r in results),
            transitions=sum(r['solver_queries'] for r in results),
            traces_validated_against_impl=sum(r['validated'] for r in results),
            samples=samples,
            evaluations=sum(r['paths'] for r in results),
            distinct_nontrivial=sum(r['nontrivial'] for r in results),
            rule=('one evaluation = one feasible execution path of the real petl code through a harness, '
                  'selected by z3 (distinct paths have distinct branch-decision sequences by construction '
                  'of the search tree); non-trivial = the path passed the job\'s input assumptions and '
                  'evaluated at least one oracle assertion. ' + getattr(mod, 'RULE', '')),
            exhaustive=all_confirmed,
            jobs_total=len(results),
            jobs_confirmed_exhausted=sum(1 for r in results if r['verdict'] == 'confirmed'),
            incomplete_jobs=[r['name'] for r in results if r['verdict'] == 'incomplete'],
            refuted_jobs=[v[0] for v in violations],
            pruned_paths=sum(r['pruned'] for r in results),
            assertions_evaluated=sum(r.get('checks', 0) for r in results),
            solver='z3 %s via crosshair-tool 0.0.110' % _z3_version(),
            solver_time_s=round(sum(r['solver_s'] for r in results), 2),
            cpu_s=round(sum(r.get('cpu_s', 0.0) for r in results), 1),
            functions_encoded=functions,
            bounds=getattr(mod, 'BOUNDS', {}).get(tier, getattr(mod, 'BOUNDS', {})),
            outside_bounds=getattr(mod, 'OUTSIDE', ''),
            stubs=getattr(mod, 'STUBS', []),
            known_findings_hit=kf_hit,
            job_filter=only,
            jobs=jobs,
            explanation=('bounded symbolic execution of the real petl code (imported from /repo working tree) '
                         'with CrossHair; every branch on a symbolic value decided by z3; a job is "confirmed" '
                         'only when its search tree is exhausted'),
        ),
        assumptions=list(getattr(mod, 'ASSUMPTIONS', [])) + [
            'CrossHair 0.0.110 symbolic semantics of Python builtins (cross-checked on every path by a '
            'concrete re-run of the realised model)', 'z3 soundness', 'CPython 3.12 semantics'],
        wall_s=round(wall, 2),
        violations=len(violations),
    )
    # runs against a seeded (deliberately broken) tree must not overwrite the evidence of the real tree
    evdir = os.environ.get('VERIF_EVIDENCE_DIR') or os.path.join(VERIF, 'evidence')
    os.makedirs(evdir, exist_ok=True)
    path = os.path.join(evdir, '%s.json' % prop)
    with open(path + '.tmp', 'w') as f:
        json.dump(ev, f, indent=1, sort_keys=True)
    os.replace(path + '.tmp', path)


def _z3_version():
    try:
        import z3
        return z3.get_version_string()
    except Exception:
        return '?'
