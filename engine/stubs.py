"""Environment stubs (DESIGN 3.5).  Each stub is part of the claim of the jobs
that use it and is named in their evidence.  Plain Python; no CrossHair."""
import contextlib
import copy
import os
import shutil
import tempfile


# --------------------------------------------------------------------------
class PickleStub(object):
    """Stands in for the name ``pickle`` inside petl.transform.sorts and
    petl.io.json.  ``dump`` writes one marker byte to the *real* file and
    keeps a structural copy of the object in memory keyed by (file name,
    offset); ``load`` reads one byte (real EOF -> EOFError) and returns a
    fresh structural copy.  File creation, re-opening, seek/tell, EOF and
    unlinking stay the real thing.  Assumption introduced:
    pickle.load(pickle.dump(x)) == x, loads are independent copies."""

    HIGHEST_PROTOCOL = -1

    def __init__(self):
        self.store = {}

    @staticmethod
    def _copy(obj):
        # structural copy of rows: lists/tuples/dicts of cells; cells shared
        if isinstance(obj, list):
            return [PickleStub._copy(x) for x in obj]
        if isinstance(obj, tuple):
            return tuple(PickleStub._copy(x) for x in obj)
        if isinstance(obj, dict):
            return dict((k, PickleStub._copy(v)) for k, v in obj.items())
        return obj

    def dump(self, obj, f, protocol=None):
        pos = f.tell()
        self.store[(os.path.realpath(f.name), pos)] = self._copy(obj)
        f.write(b'\x01')

    def load(self, f):
        pos = f.tell()
        b = f.read(1)
        if not b:
            raise EOFError('Ran out of input')
        return self._copy(self.store[(os.path.realpath(f.name), pos)])


@contextlib.contextmanager
def pickle_stub():
    import petl.transform.sorts as sorts
    import petl.io.json as pjson
    stub = PickleStub()
    saved = (sorts.pickle, pjson.pickle)
    sorts.pickle = stub
    pjson.pickle = stub
    try:
        yield stub
    finally:
        sorts.pickle, pjson.pickle = saved


# --------------------------------------------------------------------------
@contextlib.contextmanager
def private_tempdir():
    """A fresh directory (under $TMPDIR) used as tempdir= / tempfile.tempdir for
    one path; removed afterwards."""
    d = tempfile.mkdtemp(prefix='pv_')
    try:
        yield d
    finally:
        shutil.rmtree(d, ignore_errors=True)


@contextlib.contextmanager
def default_tempdir(d):
    saved = tempfile.tempdir
    tempfile.tempdir = d
    try:
        yield d
    finally:
        tempfile.tempdir = saved


# --------------------------------------------------------------------------
class ClockStub(object):
    """Stands in for the name ``time`` inside petl.util.timing: non-decreasing
    instants; ``steps`` is a list of non-negative increments consumed one per
    call (then the last one repeats)."""

    def __init__(self, steps):
        self.steps = list(steps) or [1]
        self.now = 1000.0
        self.i = 0

    def _tick(self):
        s = self.steps[min(self.i, len(self.steps) - 1)]
        self.i += 1
        self.now += s
        return self.now

    def time(self):
        return self._tick()

    def perf_counter(self):
        return self._tick()

    def process_time(self):
        return self._tick()


@contextlib.contextmanager
def clock_stub(steps):
    import petl.util.timing as timing
    stub = ClockStub(steps)
    saved = timing.time
    timing.time = stub
    try:
        yield stub
    finally:
        timing.time = saved


# --------------------------------------------------------------------------
class RngStub(object):
    """Stands in for the ``random`` module used by petl.util.random.  One
    process-wide generator (a 31-bit LCG) plus ``Random(seed)`` instances with
    private state - the documented contract of the random module; the Mersenne
    Twister itself is what is dropped."""

    class Random(object):
        def __init__(self, seed=None):
            self.seed(seed)

        def seed(self, s=None):
            if s is None:
                s = 12345
            self.state = (int(s) * 2654435761 + 1) % 2147483648

        def _next(self):
            self.state = (self.state * 1103515245 + 12345) % 2147483648
            return self.state

        def random(self):
            return self._next() / 2147483648.0

        def randint(self, a, b):
            return a + self._next() % (b - a + 1)

        def choice(self, seq):
            return seq[self._next() % len(seq)]

        def getstate(self):
            return self.state

        def setstate(self, s):
            self.state = s

    def __init__(self):
        self._g = RngStub.Random(0)
        self.seed = self._g.seed
        self.random = self._g.random
        self.randint = self._g.randint
        self.choice = self._g.choice
        self.getstate = self._g.getstate
        self.setstate = self._g.setstate


@contextlib.contextmanager
def rng_stub():
    import petl.util.random as prandom
    stub = RngStub()
    names = [n for n in ('pyrandom', 'random') if hasattr(prandom, n)
             and getattr(getattr(prandom, n), '__name__', '') == 'random']
    saved = dict((n, getattr(prandom, n)) for n in names)
    for n in names:
        setattr(prandom, n, stub)
    try:
        yield stub
    finally:
        for n, v in saved.items():
            setattr(prandom, n, v)


# --------------------------------------------------------------------------
class CountingSource(object):
    """A table container that counts header reads and data-row pulls."""

    def __init__(self, rows):
        self.rows = rows
        self.iters = 0
        self.header_reads = 0
        self.pulls = 0        # data rows handed out (all iterators)
        self.exhausted = 0    # times an iterator ran to StopIteration
        self.maxpulls = 0     # most data rows handed out by any single iterator

    def __iter__(self):
        self.iters += 1
        return self._gen()

    def _gen(self):
        first = True
        mine = 0
        for r in self.rows:
            if first:
                self.header_reads += 1
                first = False
            else:
                self.pulls += 1
                mine += 1
                if mine > self.maxpulls:
                    self.maxpulls = mine
            yield r
        self.exhausted += 1

    def reset(self):
        self.iters = self.header_reads = self.pulls = self.exhausted = self.maxpulls = 0


class SourceFailure(Exception):
    """Raised by FailingSource at the chosen position."""


class FailingSource(object):
    """Yields rows[0..fail_at-1] and then raises SourceFailure.  fail_at ==
    len(rows) means: raise at exhaustion (instead of StopIteration);
    fail_at is None: never fail."""

    def __init__(self, rows, fail_at, exc=None):
        self.rows = rows
        self.fail_at = fail_at
        self.exc = exc or SourceFailure

    def __iter__(self):
        return self._gen()

    def _gen(self):
        i = 0
        for r in self.rows:
            if self.fail_at is not None and i == self.fail_at:
                raise self.exc('injected at %d' % i)
            yield r
            i += 1
        if self.fail_at is not None and self.fail_at >= i:
            raise self.exc('injected at exhaustion')


def snapshot(obj):
    """Structural deep snapshot of nested lists/tuples/dicts (cells shared)."""
    return copy.deepcopy(obj)
