"""One job in one process:  python -m engine.worker <spec.json> <result.json>

spec: {module, func, params, cpu_budget, per_path_timeout, active_kf,
       validate_every, max_paths, seed}
"""
import importlib
import json
import os
import sys
import tempfile


def main():
    spec = json.load(open(sys.argv[1]))
    out = sys.argv[2]
    # private scratch: every temp file of this job lives below this directory
    scratch = spec.get('scratch')
    if scratch:
        os.environ['TMPDIR'] = scratch
        tempfile.tempdir = scratch
    from . import driver
    mod = importlib.import_module(spec['module'])
    fn = getattr(mod, spec['func'])
    res = driver.explore(fn, spec.get('params', {}),
                         cpu_budget=spec.get('cpu_budget', 60.0),
                         per_path_timeout=spec.get('per_path_timeout', 10.0),
                         active_kf=spec.get('active_kf', ()),
                         max_paths=spec.get('max_paths'),
                         validate_every=spec.get('validate_every', 1),
                         seed=spec.get('seed', 0))
    fns = []
    model = res.pop('first_pass_model', None)
    if model is not None and spec.get('trace_functions', True):
        fns = driver.trace_functions(fn, spec.get('params', {}), model,
                                     spec.get('active_kf', ()))
    res['functions'] = fns
    with open(out + '.tmp', 'w') as f:
        json.dump(res, f)
    os.replace(out + '.tmp', out)


if __name__ == '__main__':
    main()
