"""Reference order and small reference models used by the oracles
(DESIGN 3.3/3.4).  Never imports petl.comparison."""
from decimal import Decimal


def rank(v):
    if v is None:
        return 0
    if isinstance(v, (bool, int, float, Decimal)):
        return 1
    return 2


def tname(v):
    if isinstance(v, bytes):
        return 'str'        # Python-2 names: bytes before text
    if isinstance(v, str):
        return 'unicode'
    if isinstance(v, (list, tuple)):
        return 'tuple'
    return type(v).__name__


def ref_lt(a, b):
    """a strictly before b in the documented order: None < numbers < rest;
    same type natively; unrelated types by type name; sequences
    element-wise."""
    ra, rb = rank(a), rank(b)
    if ra != rb:
        return ra < rb
    if ra == 0:
        return False
    if ra == 1:
        return a < b
    ta, tb = tname(a), tname(b)
    if ta != tb:
        return ta < tb
    if ta == 'tuple':
        for x, y in zip(a, b):
            if ref_lt(x, y):
                return True
            if ref_lt(y, x):
                return False
        return len(a) < len(b)
    return a < b


def ref_eq(a, b):
    """Equivalence of the reference order (neither before the other)."""
    return not ref_lt(a, b) and not ref_lt(b, a)


def cells_eq(a, b):
    """Cell equality as the relational operators see it (== with None==None,
    sequences element-wise so that list/tuple keys compare like petl's
    Comparable)."""
    if isinstance(a, (list, tuple)) and isinstance(b, (list, tuple)):
        return len(a) == len(b) and all(cells_eq(x, y) for x, y in zip(a, b))
    if a is None or b is None:
        return a is None and b is None
    if rank(a) != rank(b):
        return False
    if rank(a) == 2 and tname(a) != tname(b):
        return False
    return a == b


def rows(table):
    """Materialise a table as a list of tuples (header first)."""
    return [tuple(r) for r in table]


def scopy(obj):
    """Structural copy of nested lists/tuples/dicts; cells are shared."""
    if isinstance(obj, list):
        return [scopy(x) for x in obj]
    if isinstance(obj, tuple):
        return tuple(scopy(x) for x in obj)
    if isinstance(obj, dict):
        return dict((k, scopy(v)) for k, v in obj.items())
    return obj


def getcell(row, i, missing=None):
    return row[i] if i < len(row) else missing


def square(row, width, missing=None):
    row = tuple(row)
    if len(row) < width:
        return row + (missing,) * (width - len(row))
    return row[:width]


def same_rows(a, b):
    """Two row lists are identical (tuple-normalised, cell by cell ==)."""
    if len(a) != len(b):
        return False
    for x, y in zip(a, b):
        if len(x) != len(y):
            return False
        for p, q in zip(x, y):
            if not same_cell(p, q):
                return False
    return True


def same_cell(p, q):
    if p is None or q is None:
        return p is None and q is None
    if isinstance(p, bool) != isinstance(q, bool):
        return False
    return p == q


def multiset_eq(a, b, eq=None):
    """Multiset equality of two lists using only ``eq`` (stays symbolic)."""
    eq = eq or row_eq
    if len(a) != len(b):
        return False
    used = [False] * len(b)
    for x in a:
        found = False
        for j, y in enumerate(b):
            if not used[j] and eq(x, y):
                used[j] = True
                found = True
                break
        if not found:
            return False
    return True


def row_eq(x, y):
    x = tuple(x)
    y = tuple(y)
    if len(x) != len(y):
        return False
    for p, q in zip(x, y):
        if not same_cell(p, q):
            return False
    return True
