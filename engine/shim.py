"""Harness-side vocabulary.  Imports nothing from CrossHair.

A harness is ``fn(sym, **params)``.  ``sym`` hands out the *symbolic variables*
of the job (ints, bools, strings, choices).  Under the engine ``sym`` is a
``SymbolicSym`` (engine.driver) whose values are z3-backed CrossHair proxies;
under ``./verify replay`` (plain /venv/bin/python, no CrossHair) it is the
``ConcreteSym`` below, fed with the values of a solver model.  The harness code
is the same in both cases.

A harness signals its verdict by returning normally (the property's assertion
held on this path), by raising ``Violation`` (it did not), or through
``assume`` (the path lies outside the job's stated input domain and is pruned;
it never counts as a pass).
"""


class AssumeFailed(BaseException):
    """Path pruned: input outside the stated domain of the job."""


class Violation(Exception):
    """The property's assertion does not hold on this path."""


def assume(cond):
    if not cond:
        raise AssumeFailed()


CHECKS = [0]   # number of oracle assertions evaluated on the current path


def check(cond, msg, *details):
    """The property assertion.  ``msg`` must be cheap to build."""
    CHECKS[0] += 1
    if not cond:
        raise Violation(msg if not details else msg + ' :: ' +
                        ' | '.join(_safe_repr(d) for d in details))


def _safe_repr(x):
    try:
        return repr(x)
    except Exception as e:  # pragma: no cover
        return '<unrepr %s>' % type(e).__name__


class SymBase(object):
    """Common derived constructors; subclasses provide _int/_bool/_str."""

    symbolic = False
    active_kf = frozenset()

    # -- primitive symbolic variables -------------------------------------
    def int(self, name, lo=None, hi=None):
        v = self._int(name)
        if lo is not None:
            assume(v >= lo)
        if hi is not None:
            assume(v <= hi)
        return v

    def bool(self, name):
        return self._bool(name)

    def float(self, name):
        """A symbolic non-NaN float."""
        v = self._float(name)
        assume(v == v)
        return v

    def str(self, name, maxlen, alphabet=None):
        """A symbolic string of length <= maxlen (optionally over alphabet)."""
        v = self._str(name)
        assume(len(v) <= maxlen)
        if alphabet is not None:
            for i in range(maxlen):
                if i < len(v):
                    assume(v[i] in alphabet)
        return v

    # -- derived -----------------------------------------------------------
    def choice(self, name, n):
        """A *concrete* int in [0, n): a chain of solver-decided forks (one
        symbolic Boolean per value; nothing is pruned)."""
        for v in range(n - 1):
            if self._bool('%s=%d' % (name, v)):
                return v
        return max(n - 1, 0)

    def pick(self, name, seq):
        return seq[self.choice(name, len(seq))]

    def flag(self, name):
        """A concrete bool decided by one fork."""
        return True if self._bool(name) else False

    def optint(self, name, lo=None, hi=None):
        isnone = self._bool(name + '?')
        v = self.int(name, lo, hi)
        return None if isnone else v

    def enumstr(self, name, maxlen, alphabet):
        """A *concrete* string over ``alphabet``, length <= maxlen, chosen by
        solver-decided forks (used where the value crosses into C code and
        would realise anyway)."""
        n = self.choice(name + '#', maxlen + 1)
        return ''.join(alphabet[self.choice('%s[%d]' % (name, i), len(alphabet))]
                       for i in range(n))

    # -- known findings ------------------------------------------------------
    def known(self, kfid, in_region):
        """Exclude the region of an *open, still reproducing* known finding.

        ``in_region`` is the region predicate evaluated on this path's
        arguments.  When the finding is not active nothing is excluded."""
        if kfid in self.active_kf:
            assume(not in_region)

    def concretize(self, x):
        return x


class ConcreteSym(SymBase):
    """Feeds a recorded solver model (list of [name, value]) to the harness."""

    def __init__(self, values, active_kf=frozenset()):
        self._values = list(values)
        self._pos = 0
        self.active_kf = frozenset(active_kf)

    def _next(self, name, kinds):
        if self._pos >= len(self._values):
            raise ReplayMismatch('model exhausted at %r' % name)
        n, v = self._values[self._pos]
        self._pos += 1
        if n != name:
            raise ReplayMismatch('expected %r, model has %r' % (name, n))
        if type(v) not in kinds:
            raise ReplayMismatch('bad kind for %r: %r' % (name, v))
        return v

    def _int(self, name):
        return self._next(name, (int,))

    def _bool(self, name):
        return self._next(name, (bool,))

    def _str(self, name):
        return self._next(name, (str,))

    def _float(self, name):
        return float(self._next(name, (float, int)))


class ReplayMismatch(BaseException):
    """The harness asked for variables in a different order than recorded
    (can only happen when the harness or petl changed between runs)."""


def run_harness(fn, sym, params):
    """Run one harness path.  Returns (verdict, detail) with verdict in
    'pass' | 'assume' | 'fail'."""
    CHECKS[0] = 0
    try:
        fn(sym, **params)
    except AssumeFailed:
        return ('assume', None)
    except Violation as e:
        return ('fail', str(e))
    except Exception as e:
        return ('fail', 'unexpected %s: %s' % (type(e).__name__, _safe_repr(e.args)))
    return ('pass', None)
