"""Replay a solver model against the real code in a plain interpreter:

    PYTHONPATH=/verif:/repo /venv/bin/python -m engine.replay <replay.json>

exit 0: harness passes on these values; 1: the violation reproduces;
2: the values are outside the harness domain / do not fit the harness.
"""
import importlib
import json
import os
import shutil
import sys
import tempfile


def replay(doc):
    from . import shim
    mod = importlib.import_module(doc['module'])
    fn = getattr(mod, doc['func'])
    sym = shim.ConcreteSym(doc['values'], doc.get('active_kf', ()))
    try:
        return shim.run_harness(fn, sym, doc.get('params', {}))
    except shim.ReplayMismatch as e:
        return ('mismatch', str(e))


def main():
    doc = json.load(open(sys.argv[1]))
    scratch = tempfile.mkdtemp(prefix='pv_replay_')
    os.environ['TMPDIR'] = scratch
    tempfile.tempdir = scratch
    try:
        kind, detail = replay(doc)
    finally:
        tempfile.tempdir = None
        shutil.rmtree(scratch, ignore_errors=True)
    print('REPLAY property=%s job=%s verdict=%s' % (doc.get('property'), doc.get('job'), kind))
    if detail:
        print(detail)
    sys.exit({'pass': 0, 'fail': 1}.get(kind, 2))


if __name__ == '__main__':
    main()
