"""Bounded symbolic exploration of one harness with CrossHair/z3.

Owns the path loop (modelled on crosshair.core.explore_paths) so that
exhaustion, path counts, solver queries and per-path concrete agreement can be
reported exactly.  See DESIGN.md section 2.
"""
import os
import sys
import time
import traceback
from time import process_time

import crosshair.core_and_libs  # noqa: F401  (registers the std-lib models)
import crosshair.statespace as _ss
import z3
from crosshair.condition_parser import condition_parser
from crosshair.core import (COMPOSITE_TRACER, ExceptionFilter, NoTracing,
                            Patched, ResumedTracing, deep_realize,
                            proxy_for_type,
                            suspected_proxy_intolerance_exception)
from crosshair.options import AnalysisKind
from crosshair.statespace import (CallAnalysis, RootNode, StateSpace,
                                  StateSpaceContext, VerificationStatus)
from crosshair.util import (CrosshairUnsupported, IgnoreAttempt,
                            NotDeterministic, UnexploredPath)

from . import shim
from .shim import (AssumeFailed, ConcreteSym, ReplayMismatch, SymBase,
                   Violation)

# --------------------------------------------------------------------------
# instrumentation: count solver queries and solver time

SOLVER = {'queries': 0, 'time': 0.0, 'unknown': 0}
_orig_solver_is_sat = _ss.solver_is_sat


def _counting_solver_is_sat(solver, *exprs):
    t0 = time.perf_counter()
    SOLVER['queries'] += 1
    try:
        return _orig_solver_is_sat(solver, *exprs)
    except _ss.UnknownSatisfiability:
        SOLVER['unknown'] += 1
        raise
    finally:
        SOLVER['time'] += time.perf_counter() - t0


_ss.solver_is_sat = _counting_solver_is_sat

# adjustment (ii) of DESIGN 2.1: never take the "premature realize" branch
_orig_fork_parallel = StateSpace.fork_parallel


def _fork_parallel(self, false_probability, desc=''):
    if desc.startswith('premature realize'):
        false_probability = 1.0
    return _orig_fork_parallel(self, false_probability, desc)


StateSpace.fork_parallel = _fork_parallel


# repair of CrossHair's str model: comparing a symbolic str with a non-str must
# return NotImplemented (so that the reflected method of the other operand,
# e.g. petl's Comparable.__gt__, is tried) instead of raising TypeError.
from crosshair.libimpl import builtinslib as _bl  # noqa: E402

_orig_str_cmp_op = _bl.AnySymbolicStr._cmp_op


def _str_cmp_op(self, other, op):
    if not isinstance(other, str):
        return NotImplemented
    return _orig_str_cmp_op(self, other, op)


_bl.AnySymbolicStr._cmp_op = _str_cmp_op


# --------------------------------------------------------------------------

class SymbolicSym(SymBase):
    symbolic = True

    def __init__(self, active_kf=frozenset()):
        self.record = []
        self.active_kf = frozenset(active_kf)

    def _mk(self, typ, name):
        v = proxy_for_type(typ, '%s_%d' % (name, len(self.record)))
        self.record.append((name, v))
        return v

    def _int(self, name):
        return self._mk(int, name)

    def _bool(self, name):
        return self._mk(bool, name)

    def _str(self, name):
        return self._mk(str, name)

    def _float(self, name):
        return self._mk(float, name)

    def concretize(self, x):
        return deep_realize(x)


def _run_symbolic(fn, sym, params):
    """Like shim.run_harness, but lets CrossHair's control-flow through and
    maps proxy-intolerance to 'unsupported'."""
    shim.CHECKS[0] = 0
    try:
        fn(sym, **params)
    except AssumeFailed:
        return ('assume', None)
    except Violation as e:
        return ('fail', str(e))
    except (NotDeterministic, z3.Z3Exception):
        raise
    except Exception as e:
        with NoTracing():
            if suspected_proxy_intolerance_exception(e):
                raise CrosshairUnsupported('Detected proxy intolerance: %r' % (e,))
            tb = traceback.format_exc(limit=-6)
        return ('fail', 'unexpected %s: %s' % (type(e).__name__,
                                               shim._safe_repr(e.args)) + '\n' + tb)
    return ('pass', None)


def _jsonable(v):
    if isinstance(v, bool) or v is None or isinstance(v, (int, str, float)):
        return v
    raise TypeError('non-JSON model value %r' % (v,))


def explore(fn, params, cpu_budget=60.0, per_path_timeout=10.0, active_kf=(),
            max_paths=None, validate_every=1, keep_samples=3, seed=0):
    """Explore every feasible path of ``fn(sym, **params)``.

    Returns a dict (see keys below).  verdict:
      confirmed   search tree exhausted, every path passed (symbolically and in
                  the concrete re-run) and >= 1 path evaluated an assertion
      refuted     a path failed and the realised model fails concretely too
      incomplete  budget exhausted / unknown paths / engine disagreement
    """
    root = RootNode()
    start = process_time()
    wall0 = time.time()
    q0, t0 = SOLVER['queries'], SOLVER['time']
    res = dict(paths=0, passed=0, pruned=0, nontrivial=0, unknown=0, ignored=0,
               validated=0, disagreements=[], checks=0, samples=[], exhausted=False,
               counterexample=None, reasons=[], first_pass_model=None)
    exhausted = False
    final_status = None
    while True:
        now = process_time()
        if now - start > cpu_budget:
            res['reasons'].append('cpu budget %.0fs exhausted' % cpu_budget)
            break
        if max_paths is not None and res['paths'] >= max_paths:
            res['reasons'].append('max_paths %d reached' % max_paths)
            break
        space = StateSpace(execution_deadline=now + per_path_timeout,
                           model_check_timeout=per_path_timeout / 2,
                           search_root=root)
        res['paths'] += 1
        outcome = None
        values = None
        stop = False
        with condition_parser([AnalysisKind.PEP316]), Patched(), \
                COMPOSITE_TRACER, NoTracing(), StateSpaceContext(space):
            sym = SymbolicSym(active_kf)
            try:
                try:
                    with ResumedTracing():
                        outcome = _run_symbolic(fn, sym, params)
                    nchecks = shim.CHECKS[0]
                    with ResumedTracing():
                        space.detach_path()
                    values = [[n, _jsonable(deep_realize(p))] for n, p in sym.record]
                    status = VerificationStatus.CONFIRMED
                except NotDeterministic:
                    res['reasons'].append('NotDeterministic')
                    status = VerificationStatus.UNKNOWN
                    stop = True
                    outcome = None
            except IgnoreAttempt:
                status = None
                res['ignored'] += 1
                outcome = None
            except UnexploredPath as e:
                status = VerificationStatus.UNKNOWN
                res['unknown'] += 1
                if len(res['reasons']) < 5:
                    res['reasons'].append('unknown path: %s %s' % (type(e).__name__, str(e)[:200]))
                outcome = None
            # ---- per-path concrete agreement (tracing is off here)
            if outcome is not None:
                kind, detail = outcome
                do_validate = (kind == 'fail') or (res['paths'] % validate_every == 0)
                if do_validate:
                    try:
                        ckind, cdetail = shim.run_harness(fn, ConcreteSym(values, active_kf), params)
                    except ReplayMismatch as e:
                        ckind, cdetail = 'mismatch', str(e)
                    if ckind == kind:
                        res['validated'] += 1
                    else:
                        res['disagreements'].append(dict(values=values, symbolic=[kind, detail],
                                                         concrete=[ckind, cdetail]))
                        status = VerificationStatus.UNKNOWN
                        if ckind == 'fail' and kind == 'pass':
                            # the solver's model, run on the real code in the plain interpreter, breaks the property
                            # although the traced run did not (e.g. set iteration order differs under tracing): the
                            # concrete run is the authority - hand it on as a counterexample; the pool replays it in a
                            # fresh interpreter before anything is reported
                            kind, detail = 'fail', '%s [concrete run of the model; the traced run passed]' % (cdetail,)
                        elif kind == 'fail' or ckind == 'fail':
                            # symbolic-only failure: never a violation by itself; job cannot be confirmed
                            kind = 'disagree'
                if kind == 'pass':
                    res['passed'] += 1
                    res['checks'] += nchecks
                    if nchecks > 0:
                        res['nontrivial'] += 1
                    if res['first_pass_model'] is None and nchecks > 0:
                        res['first_pass_model'] = values
                    if len(res['samples']) < keep_samples and nchecks > 0:
                        res['samples'].append(values)
                elif kind == 'assume':
                    res['pruned'] += 1
                elif kind == 'fail':
                    res['counterexample'] = dict(values=values, detail=detail)
                    status = VerificationStatus.REFUTED
                    stop = True
            try:
                analysis, exhausted = space.bubble_status(CallAnalysis(status))
                final_status = analysis.verification_status if analysis is not None else None
            except Exception as e:  # pragma: no cover
                res['reasons'].append('bubble_status error %r' % (e,))
                stop = True
        if stop or exhausted:
            break
    res['exhausted'] = bool(exhausted)
    res['cpu_s'] = round(process_time() - start, 3)
    res['wall_s'] = round(time.time() - wall0, 3)
    res['solver_queries'] = SOLVER['queries'] - q0
    res['solver_s'] = round(SOLVER['time'] - t0, 3)
    if res['counterexample'] is not None:
        res['verdict'] = 'refuted'
    elif (exhausted and final_status == VerificationStatus.CONFIRMED
          and not res['disagreements'] and res['unknown'] == 0):
        if res['nontrivial'] >= 1:
            res['verdict'] = 'confirmed'
        else:
            res['verdict'] = 'incomplete'
            if active_kf and res['pruned'] == res['paths']:
                res['reasons'].append('nothing explored: every path lies inside the region of an open known finding (%s)'
                                      % ', '.join(sorted(active_kf)))
            else:
                res['reasons'].append('vacuous: no path evaluated an assertion')
    else:
        res['verdict'] = 'incomplete'
        if res['disagreements']:
            res['reasons'].append('engine disagreement on %d path(s)' % len(res['disagreements']))
        if exhausted and final_status != VerificationStatus.CONFIRMED:
            res['reasons'].append('tree exhausted with status %s' % (final_status,))
    res['disagreements'] = res['disagreements'][:3]
    return res


def trace_functions(fn, params, values, active_kf=(), prefix='/repo/petl'):
    """Qualified names of the petl functions executed by one concrete replay."""
    seen = set()

    def prof(frame, event, arg):
        if event == 'call':
            co = frame.f_code
            f = co.co_filename
            if f.startswith(prefix) and '/test/' not in f:
                seen.add('%s:%s' % (f[len('/repo/'):], getattr(co, 'co_qualname', co.co_name)))
    sys.setprofile(prof)
    try:
        shim.run_harness(fn, ConcreteSym(values, active_kf), params)
    except BaseException:
        pass
    finally:
        sys.setprofile(None)
    return sorted(seen)
