#!/usr/bin/env python3
"""Regenerate the seeded-change table in DESIGN.md from seeded/*/meta.json."""
import glob, json, os, re
rows = ['| seeded change | breaks | what it needs to manifest (first line of the author\'s note) | detected by (tier: first violating job) |', '|---|---|---|---|']
for d in sorted(glob.glob('/verif/seeded/*')):
    m = json.load(open(d + '/meta.json'))
    need = m['needs'].split('\n')[0][:170].replace('|', '/')
    det = []
    for chk, r in sorted((m.get('detected_by') or {}).items()):
        if not isinstance(r, dict):
            det.append('%s: %s' % (chk, r)); continue
        if r.get('detected'):
            det.append('%s: `%s`' % (chk.replace('@', ' '), (r.get('violating_jobs') or ['?'])[0]))
        else:
            det.append('%s: **not detected** (exit %s)' % (chk.replace('@', ' '), r.get('exit')))
    rows.append('| %s | %s | %s | %s |' % (m['id'], m['breaks_property'], need, '; '.join(det) or 'not run'))
table = '\n'.join(rows)
p = '/verif/DESIGN.md'; s = open(p).read()
if 'SEEDED-TABLE-PLACEHOLDER' in s:
    s = s.replace('SEEDED-TABLE-PLACEHOLDER', '<!-- SEEDED-TABLE-BEGIN -->\n' + table + '\n<!-- SEEDED-TABLE-END -->')
else:
    s = re.sub(r'<!-- SEEDED-TABLE-BEGIN -->.*?<!-- SEEDED-TABLE-END -->', lambda _: '<!-- SEEDED-TABLE-BEGIN -->\n' + table + '\n<!-- SEEDED-TABLE-END -->', s, flags=re.S)
open(p, 'w').write(s)
print(table[:600])
