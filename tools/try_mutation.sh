#!/bin/bash
# usage: tools/try_mutation.sh <patch.diff> <PROP> [extra ./verify check args...]
# Applies a seeded change to /repo (or to the scratch worktree $MUT_REPO, used while a long run needs /repo itself),
# runs the check against that tree, and always reverts.
set -u
patch="$1"; prop="$2"; shift 2
R="${MUT_REPO:-/repo}"; export PETL_REPO="$R"
export VERIF_EVIDENCE_DIR=/tmp/pv_seeded_evidence   # never overwrite the real evidence with a run on a broken tree
cd "$R" || exit 9
if [ -n "$(git status --porcelain --untracked-files=no)" ]; then echo "repo not clean"; exit 9; fi
git apply "$patch" || { echo "patch does not apply"; exit 9; }
trap 'git -C "$R" checkout -- . ' EXIT
cd /verif && ./verify check "$prop" "$@"
rc=$?
echo "EXIT=$rc"
exit $rc
