#!/usr/bin/env python3
"""One-off edit script: strengthenings prepared while the third seeded batch was being measured against the checks as
they stood (applied only after that measurement had finished, so that the measurement is of the unmodified checks)."""


def edit(path, pairs):
    s = open(path).read()
    for old, new in pairs:
        assert s.count(old) >= 1, (path, old[:70])
        s = s.replace(old, new, 1)
    open(path, 'w').write(s)


# ---- C01: extract views over an in-memory source (shared buffer between iterators)
edit('/verif/props/c01.py', [
 ("            'memorysource-csv': lambda: petl.fromcsv(petl.MemorySource(open(p['csv'], 'rb').read())),",
  "            'memorysource-csv': lambda: petl.fromcsv(petl.MemorySource(open(p['csv'], 'rb').read())),\n"
  "            'memorysource-pickle': lambda: petl.frompickle(petl.MemorySource(open(p['pickle'], 'rb').read())),\n"
  "            'memorysource-json': lambda: petl.fromjson(petl.MemorySource(open(p['jsonl'], 'rb').read()), lines=True, header=list(HDR)),\n"
  "            'memorysource-text': lambda: petl.fromtext(petl.MemorySource(open(p['text'], 'rb').read())),"),
 ("            'memorysource-csv', 'csv-sort-pipeline']", "            'memorysource-csv', 'memorysource-pickle', 'memorysource-json', 'memorysource-text', 'csv-sort-pipeline']"),
])
# ---- catalogue: unpackdict sampling with a non-dict cell at the sample boundary; stack without trimming; rename swap
edit('/verif/props/catalogue.py', [
 ("E('unpackdict-sample', ", "E('unpackdict-sample-nondict', lambda t: petl.unpackdict(petl.convert(t, 'c', lambda v: {'p': v} if v != 'x,y' else None), 'c', samplesize=2),\n"
                             "  hdr=('a', 'b'), stream=True, look=2)\nE('unpackdict-sample', "),
 ("EB('stack-missing-trim', ", "EB('stack-notrim-pad', lambda t: petl.stack(t, OTHER, missing='-', trim=False, pad=True), stream=True)\n"
                              "EB('stack-notrim-nopad', lambda t: petl.stack(t, OTHER, trim=False, pad=False), stream=True)\nEB('stack-missing-trim', "),
 ("E('rename-dict', ", "E('rename-swap', lambda t: petl.rename(t, {'a': 'b', 'b': 'a'}), stream=True, hdr=('b', 'a', 'c'))\nE('rename-dict', "),
])
# ---- C05: mergesort of tables whose fields are in different orders, with ragged rows
edit('/verif/props/c05.py', [
 ("# --------------------------------------------------------------------------\n\nBOUNDS", '''def mergesort_fields(sym, N1, N2, dom, reverse):
    """mergesort(t1, t2, key) == sort(cat(t1, t2), key) when the second table has its fields in another order, an extra
    field, and short rows (cells are matched to fields by name, as cat does)."""
    n1, n2 = nrows(sym, 'n1', N1), nrows(sym, 'n2', N2)
    h1, h2 = ['t', 'k'], ['x', 'k', 't']
    r1 = [['a%d' % (9 - i), cell(sym, 'a%d.k' % i, dom)] for i in range(n1)]
    r2 = []
    for i in range(n2):
        row = ['X%d' % i, cell(sym, 'b%d.k' % i, dom), 'b%d' % (9 - i)]
        ln = sym.choice('b%d.len' % i, 3) + 1               # 1..3 cells
        r2.append(row[:ln])
    with pickle_stub(), private_tempdir() as td:
        got = [tuple(r) for r in petl.mergesort([h1] + r1, [h2] + r2, key='k', reverse=reverse, tempdir=td)]
        exp = [tuple(r) for r in petl.sort(petl.cat([h1] + r1, [h2] + r2), 'k', reverse=reverse, tempdir=td)]
    check(got[0] == ('t', 'k', 'x'), 'mergesort header (union of the fields)', got[0])
    check(len(got) == len(exp), 'mergesort != sort(cat): row count', got, exp)
    for g, e in zip(got, exp):
        check(len(g) == len(e) and all((a is b) or a == b for a, b in zip(g, e)), 'mergesort != sort(cat(...))', got, exp)
    # and cat itself matches cells to fields by name
    for r in got[1:]:
        check(r[0] is None or str(r[0])[0] in 'ab', 'a cell landed under the wrong field', r)


# --------------------------------------------------------------------------

BOUNDS'''),
 ("    return out\n", "    for reverse in (False, True):\n        out.append(dict(name='mergesort-fields/O/rev=%d' % reverse, func='mergesort_fields',\n"
                       "                        params=dict(N1=2, N2=2 if tier == 'quick' else 3, dom='O', reverse=reverse),\n"
                       "                        budget=120 if tier == 'quick' else 900))\n    return out\n"),
])
# ---- C06: a prefix on one side only; crossjoin with a missing marker
edit('/verif/props/c06.py', [
 ("    if prefix:\n        kw.update(lprefix='l_', rprefix='r_')", "    if prefix is True or prefix == 'both':\n        kw.update(lprefix='l_', rprefix='r_')\n    elif prefix == 'left':\n        kw.update(lprefix='l_')\n    elif prefix == 'right':\n        kw.update(rprefix='r_')"),
 ("    out = [('l_' + f if prefix else f) for f in lh]\n    out.append('r_b' if prefix else 'b')", "    lp = prefix in (True, 'both', 'left')\n    rp = prefix in (True, 'both', 'right')\n    out = [('l_' + f if lp else f) for f in lh]\n    out.append('r_b' if rp else 'b')"),
 ("            add(op, 2, 2, 'O', spelling='lrkey', prefix=True)\n            add(op, 2, 2, 'I', spelling='natural')",
  "            add(op, 2, 2, 'O', spelling='lrkey', prefix=True)\n            add(op, 1, 1, 'O', prefix='left')\n            add(op, 1, 1, 'O', prefix='right')\n            add(op, 2, 2, 'I', spelling='natural')"),
 ("def crossjoin_op(sym, N1, N2, N3, ragged, prefix):", "def crossjoin_op(sym, N1, N2, N3, ragged, prefix, missing=None):"),
 ("    out = [tuple(r) for r in petl.crossjoin(*tables, prefix=prefix)]", "    out = [tuple(r) for r in petl.crossjoin(*tables, prefix=prefix, missing=missing)]"),
 ("        return (tuple(r) + (None, None))[:2]", "        return (tuple(r) + (missing, missing))[:2]"),
 ("    for (a, b, c) in ([(2, 2, None), (1, 2, 1)] if q else [(3, 2, None), (2, 2, 2)]):", "    out.append(dict(name='crossjoin/2x2/ragged/missing=marker', func='crossjoin_op',\n                    params=dict(N1=2, N2=2, N3=None, ragged=True, prefix=False, missing='MISSING'), budget=120 if q else 600))\n    for (a, b, c) in ([(2, 2, None), (1, 2, 1)] if q else [(3, 2, None), (2, 2, 2)]):"),
])
# ---- C08: presorted inputs given as lists of lists; a data row equal to the header
edit('/verif/props/c08.py', [
 ("def setop(sym, op, NA, NB, ncols, dom, bs=None):", "def setop(sym, op, NA, NB, ncols, dom, bs=None, presorted=False):"),
 ("    hdr = ['x', 'y', 'z'][:ncols]", "    hdr = ['x', 'y', 'z'][:ncols]\n    if 'Md2' in dom:\n        hdr = ['a', 'b', 'c'][:ncols]      # a data row may equal the header row\n    if presorted:\n        from engine.shim import assume\n        assume(_sorted_rows(A) and _sorted_rows(B))"),
 ("        kw = dict(buffersize=bs, tempdir=td)", "        kw = dict(buffersize=bs, tempdir=td)\n        if presorted:\n            kw['presorted'] = True"),
 ("    for op in ('recordcomplement', 'recorddiff'):\n        out.append(dict(name='%s/cols=3", "    for op in ('complement', 'intersection', 'diff'):\n        out.append(dict(name='%s/presorted/2x2/cols=1/Od2' % op, func='setop',\n                        params=dict(op=op, NA=2, NB=2 if q else 3, ncols=1, dom='Od2', presorted=True), budget=180 if q else 1200))\n    for op in ('recordcomplement', 'recorddiff'):\n        out.append(dict(name='%s/cols=3"),
])
# ---- C09: mergeduplicates with a declared missing marker that is equal but not identical to the cells
edit('/verif/props/c09.py', [
 ("        elif op == 'mergeduplicates':\n            out = [tuple(r) for r in petl.mergeduplicates(table, key, **kw)]",
  "        elif op == 'mergeduplicates':\n            marker = None\n            if n > 0 and sym.flag('marker'):\n                # a declared missing marker, equal to but not the same object as the cells holding it\n                marker = ''.join(['N', 'A'])\n                for r in rows:\n                    if r[3] == 0:\n                        r[3] = ''.join(['N', 'A'])\n                table = [HDR] + rows\n                kw['missing'] = marker\n            out = [tuple(r) for r in petl.mergeduplicates(table, key, **kw)]"),
 ("                vs = [rows[i][3] for i in g]\n                if all(v == vs[0] for v in vs):", "                vs = [rows[i][3] for i in g if not (marker is not None and rows[i][3] == marker)]\n                if not vs:\n                    check(vcell == marker, 'all values missing must merge to the marker', r)\n                elif all(v == vs[0] for v in vs):"),
])
# ---- C10: isunique on keys whose hashes collide
edit('/verif/props/c10.py', [
 ("        check(petl.isunique(table, 0) == all(m == 1 for m in mult), 'isunique(0)')", "        check(petl.isunique(table, 0) == all(m == 1 for m in mult), 'isunique(0)')\n    coll = [[sym.pick('c%d' % i, [-1, -2, 0]), 'T%d' % i] for i in range(min(n, 2))]     # hash(-1) == hash(-2)\n    if len(coll) == 2:\n        check(petl.isunique([['k', 't']] + coll, 'k') == (coll[0][0] != coll[1][0]), 'isunique on hash-colliding keys', coll)"),
])
# ---- C11: the *second* input is edited between passes (lookupjoin / join / complement)
edit('/verif/props/c11.py', [
 ("EDITS = [[0, 12, 'E0'],", '''def cache_history_right(sym, op, H, cache):
    """as cache_history, but the edited source is the operator's second input"""
    left = [list(HDR), [1, 10, 'T0'], [0, 11, 'T1'], [3, 10, 'T2']]
    store = [['a', 'z'], [1, 'p'], [0, 'q']]
    src = CountingSource(store)
    mk = {'lookupjoin': lambda r, **kw: petl.lookupjoin(left, r, key='a', **kw),
          'leftjoin': lambda r, **kw: petl.leftjoin(left, r, key='a', **kw),
          'antijoin': lambda r, **kw: petl.antijoin(left, r, key='a', **kw)}[op]
    edits = [[3, 's'], [1, 'first']]
    with pickle_stub(), private_tempdir() as td:
        view = mk(src, cache=cache, tempdir=td)
        completed, versions, trace, nedits = None, [], [], 0
        for step in range(H):
            act = sym.choice('h%d' % step, 2)
            if act == 1:
                assume(nedits < 2 and (not trace or trace[-1] != 'edit'))
                store.append(list(edits[nedits]))
                store[1] = [edits[nedits][0], 'changed%d' % nedits]
                nedits += 1
                trace.append('edit')
                continue
            cur = [tuple(r) for r in mk([list(r) for r in store])]
            versions.append(cur)
            before = src.pulls
            got = [tuple(r) for r in view]
            trace.append('full')
            if not cache:
                check(got == cur, op + ': cache=False pass does not reflect the current contents of the second input', trace, got, cur)
            elif completed is not None:
                check(got == completed and src.pulls == before, op + ': cache=True pass after a completed one re-read / differs', trace)
            else:
                check(any(got == v for v in versions), op + ': cache=True first pass matches no version', trace, got)
                completed = got


EDITS = [[0, 12, 'E0'],'''),
 ("    return out\n", "    for op in ('lookupjoin', 'leftjoin', 'antijoin'):\n        for cache in (True, False):\n            out.append(dict(name='history-right/%s/cache=%d' % (op, cache), func='cache_history_right',\n"
                       "                            params=dict(op=op, H=4 if q else 6, cache=cache), budget=B))\n    return out\n"),
])
# ---- C12: renames that swap / chain names
edit('/verif/props/c12.py', [
 ("        form = sym.choice('form', 4)\n        if form == 0:", "        form = sym.choice('form', 6)\n        if form == 4 and hk == 'abc':\n            got = _out(petl.rename(table, {'a': 'b', 'b': 'a'}))\n            oh = ['b', 'a', 'c']\n        elif form == 5 and hk == 'abc':\n            got = _out(petl.rename(table, {0: 'c', 'c': 'd'}))\n            oh = ['c', 'b', 'd']\n        elif form >= 4:\n            return\n        elif form == 0:"),
])
# ---- C13: a row-form selection feeding a field-form selection with another `missing`
edit('/verif/props/c13.py', [
 ("def facet_op(sym, N, dom):", '''def chained_op(sym, N):
    """select(select(t, rowpred, missing=m1), field, pred, missing=m2): short rows read as m2 in the outer selection"""
    table, rows, ks0 = _table(sym, N, 'Od2', True)
    n = len(rows)
    inner = petl.select(table, lambda rec: True, missing='m1')
    got, _ = _tags(petl.selectnone(inner, 't') if False else petl.select(inner, 'k', lambda v: v is None, missing=None))
    exp = ['T%d' % i for i in range(n) if (rows[i][1] if len(rows[i]) > 1 else None) is None]
    check(got == exp, 'chained selections: the outer selection must see missing cells as ITS missing', rows, got, exp)
    got2, _ = _tags(petl.selectnone(inner, 'k'))
    check(got2 == exp, 'selectnone after a row-form select', rows, got2, exp)


def facet_op(sym, N, dom):'''),
 ("    out.append(dict(name='selectin-containers',", "    out.append(dict(name='chained-selects', func='chained_op', params=dict(N=2 if q else 3), budget=B))\n    out.append(dict(name='selectin-containers',"),
])
# ---- C14: the split value also occurs in an earlier field
edit('/verif/props/c14.py', [
 ("        rows = [['a%d' % i, texts[i], 'c%d' % i] for i in range(n)]\n        table = [['a', 'b', 'c']] + rows", "        rows = [[(texts[i] if sym.flag('same%d' % i) else 'a%d' % i), texts[i], 'c%d' % i] for i in range(n)]\n        table = [['a', 'b', 'c']] + rows"),
])
# ---- C16: html index_header / truncate; cache() under interleaving (schedule harness of C01)
edit('/verif/props/c16.py', [
 ("            if sym.flag('lineterminator'):\n                kw['lineterminator'] = '\\r\\n'", "            if sym.flag('lineterminator'):\n                kw['lineterminator'] = '\\r\\n'\n            if sym.flag('index_header'):\n                kw['index_header'] = True\n            if sym.flag('truncate'):\n                kw['truncate'] = 3"),
 ("    return out\n", "    for name in ('cache-all', 'cache-1', 'cache-2', 'cache-3'):\n        out.append(dict(name='interleaved/%s' % name, module='props.c01', func='catalogue_view',\n"
                       "                        params=dict(name=name, R=2, L=6, nits=2, nsym=0, renew0=True), budget=B, per_path=20))\n    return out\n"),
])
print('applied')
