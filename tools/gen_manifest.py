#!/usr/bin/env python3
"""Regenerates /verif/MANIFEST.json from tools/manifest_texts.py and the set of
props/cXX.py modules that exist."""
import json, os, sys
HERE = os.path.dirname(os.path.dirname(os.path.abspath(__file__)))
sys.path.insert(0, os.path.join(HERE, 'tools'))
import manifest_texts as T

props = [json.loads(l) for l in open(os.path.join(HERE, 'properties.jsonl'))]
checks, na = [], []
for p in props:
    pid = p['id']
    if os.path.exists(os.path.join(HERE, 'props', pid.lower() + '.py')) and pid in T.CHECKS:
        t = T.CHECKS[pid]
        checks.append(dict(
            property_id=pid,
            quick_cmd='./verify check %s --tier quick' % pid,
            thorough_cmd='./verify check %s --tier thorough' % pid,
            evidence_file='evidence/%s.json' % pid,
            replay_cmd_template='./verify replay {path}',
            engine='crosshair-z3-pathloop',
            level_claimed=dict(category='model_checking', text=t['level'], design_ref=t.get('ref', 'DESIGN.md section 4 / ' + pid)),
            level_note=t['note'],
            technique=t.get('technique', T.TECHNIQUE)))
    else:
        na.append(dict(property_id=pid, reason=T.NOT_APPLICABLE.get(pid, 'no check registered yet (harness under construction)')))
m = dict(
    version=1,
    setup_cmd='./verify setup',
    hooks=dict(guard='PETL_VERIF', enable='no source hooks are needed: petl is imported from /repo\'s working tree and all stubs are monkey-patches applied inside the check processes; PETL_VERIF is declared and unused',
               baseline_off_cmd='cd /repo && /venv/bin/python -m pytest -ra -q -p no:cacheprovider --timeout=900 --continue-on-collection-errors',
               source_commits=[], add_only=True),
    engines=[dict(name='crosshair-z3-pathloop', path='engine/', serves_properties=[c['property_id'] for c in checks],
                  kind_free_text='bounded symbolic execution of the real petl code: CrossHair 0.0.110 used as a library with our own path loop; every branch on a symbolic value is decided by z3 5.1.0; jobs run in parallel worker processes')],
    checks=checks,
    notes=T.NOTES,
    not_applicable=na)
json.dump(m, open(os.path.join(HERE, 'MANIFEST.json'), 'w'), indent=1)
print('claimed:', [c['property_id'] for c in checks]); print('not claimed:', [n['property_id'] for n in na])
