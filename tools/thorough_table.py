#!/usr/bin/env python3
"""Summarise thorough-tier runs from their logs into DESIGN.md (between THOROUGH-TABLE markers)."""
import re, sys
def parse(path):
    out = {}
    for l in open(path, errors='replace'):
        m = re.match(r'(C\d\d) thorough: (\d+) jobs, (\d+) confirmed \(exhausted\), (\d+) incomplete, (\d+) refuted; paths=(\d+) queries=(\d+) wall=(\d+)s', l)
        if m:
            out[m.group(1)] = tuple(int(x) for x in m.groups()[1:])
    return out
a = parse('/root/.vp/runs/1/log')          # long run, default 35-min cap, machine loaded by other runs, harness at commit ccc1f52
b = parse('/tmp/thorough2.log')            # run with a 10-min cap per property, final harnesses
import os
if os.path.exists('/tmp/thorough3.log'):
    b.update(parse('/tmp/thorough3.log'))   # C01, C05, C11, C15, C18 again after their thorough tiers were resized
rows = ['| id | long run (35-min cap, loaded machine, earlier harness): jobs / exhausted / incomplete / refuted / paths / wall s | capped run (10-min cap, final harness): jobs / exhausted / incomplete / refuted / paths / wall s |', '|---|---|---|']
for i in range(1, 21):
    k = 'C%02d' % i
    f = lambda t: ('%d / %d / %d / %d / %d / %d' % (t[0], t[1], t[2], t[3], t[4], t[6])) if t else 'not run (stopped)'
    rows.append('| %s | %s | %s |' % (k, f(a.get(k)), f(b.get(k))))
table = '\n'.join(rows)
p = '/verif/DESIGN.md'; s = open(p).read()
s = re.sub(r'<!-- THOROUGH-TABLE-BEGIN -->.*?<!-- THOROUGH-TABLE-END -->', lambda _: '<!-- THOROUGH-TABLE-BEGIN -->\n' + table + '\n<!-- THOROUGH-TABLE-END -->', s, flags=re.S)
open(p, 'w').write(s)
print(table)
