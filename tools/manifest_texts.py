TECHNIQUE = ('bounded symbolic execution of the real petl code (CrossHair + z3): inputs/shapes/flags are symbolic '
             'variables, each job\'s path tree is explored to exhaustion, counterexamples are replayed concretely')
NOTES = ('All checks: ./verify check <ID> --tier quick|thorough. Exit 0 = no violation on anything explored '
         '(jobs whose path tree was not exhausted within budget are listed as incomplete in evidence, never as proof); '
         'exit 1 = replayed violation; exit 3 = harness/engine error. fix: commits in /repo are recorded in known_findings.txt.')
_GEN_NOTE = ('Bounded: holds for all values within the bounds listed in evidence (coverage.bounds); nothing is claimed '
             'outside them. Trusted: CrossHair\'s symbolic semantics (cross-checked per path by a concrete re-run), z3, '
             'the reference oracle in props/%s.py, stubs listed in evidence.')
def _c(pid, level):
    return dict(level=level, note=_GEN_NOTE % pid.lower())
CHECKS = {
 'C05': _c('C05', 'For every table of <=3 (thorough 4) tagged rows with symbolic keys (int / None / mixed / compound / whole-row / ragged), every buffersize in {None,1..n+1}, reverse, cache and two passes, the solver explores all paths of sort()/mergesort() and the oracle checks permutation, order under an independent reference order, and stability.'),
 'C06': _c('C06', 'For all pairs of tables within the shape bound (2x2 quick, 3x3 thorough) with symbolic keys, every merge-join operator is checked pair-by-pair against the relational definition (matched pairs, padded unmatched rows, multiplicities, header, key order).'),
}
NOT_APPLICABLE = {}
