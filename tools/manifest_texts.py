TECHNIQUE = ('bounded symbolic execution of the real petl code (CrossHair + z3): inputs/shapes/flags are symbolic '
             'variables, each job\'s path tree is explored to exhaustion, counterexamples are replayed concretely')
NOTES = ('All checks: ./verify check <ID> --tier quick|thorough. Exit 0 = no violation on anything explored '
         '(jobs whose path tree was not exhausted within budget are listed as incomplete in evidence, never as proof); '
         'exit 1 = replayed violation; exit 3 = harness/engine error. fix: commits in /repo are recorded in known_findings.txt.')
_GEN_NOTE = ('Bounded: holds for all values within the bounds listed in evidence (coverage.bounds); nothing is claimed '
             'outside them. Trusted: CrossHair\'s symbolic semantics (cross-checked per path by a concrete re-run), z3, '
             'the reference oracle in props/%s.py, stubs listed in evidence.')
def _c(pid, level):
    return dict(level=level, note=_GEN_NOTE % pid.lower())
CHECKS = {
 'C05': _c('C05', 'For every table of <=3 (thorough 4) tagged rows with symbolic keys (int / None / mixed / compound / whole-row / ragged), every buffersize in {None,1..n+1}, reverse, cache and two passes, the solver explores all paths of sort()/mergesort() and the oracle checks permutation, order under an independent reference order, and stability.'),
 'C06': _c('C06', 'For all pairs of tables within the shape bound (2x2 quick, 3x3 thorough) with symbolic keys, every merge-join operator is checked pair-by-pair against the relational definition (matched pairs, padded unmatched rows, multiplicities, header, key order).'),
}
CHECKS.update({
 'C07': _c('C07', 'Hash joins are checked against the same relational definition as the merge joins (plus a differential run of the real merge join), with the cache flag and pass number symbolic and emission order of the streamed side; lookup functions are checked key by key against table order, *one = first, strict raises iff a key repeats.'),
 'C08': _c('C08', 'complement/intersection/diff/record*/hash* are checked against list-based multiset arithmetic for all pairs of small tables over small cell domains (every equality pattern realisable), strict symbolic; complement + intersection reassemble a.'),
 'C09': _c('C09', 'Every grouping operator is checked on tagged rows: one output group per distinct key, ascending key order, members exactly the rows with that key in input order, aggregation value = len/sum/list of those members; counts/sums conserved; selections are members and first/last/min/max.'),
 'C10': _c('C10', 'duplicates/unique partition by key multiplicity (tags), distinct keeps the first row of each key and counts add to nrows, conflicts is sound (only rows of disagreeing duplicate groups), isunique iff duplicates empty; whole-row keys via multisets.'),
})
CHECKS.update({
 'C04': _c('C04', 'For every ordered triple of value types the ordering laws (trichotomy, transitivity incl. through ==, derived operators, agreement with ==, the documented ladder via an independent reference order) are checked on symbolic ints/bools/floats/strings/sequences and on representatives for Decimal/date/time and numeric-mixing triples; every pair is also compared wrapped-vs-raw in both operand positions (what the selectors do); issorted, comparison selectors (incl. list/tuple cells) and merge joins are checked to use the same order.'),
 'C13': _c('C13', 'Every selector is checked row by row against its documented predicate (reference order, missing cells), with the complement being the exact rest; biselect/facet/search partition; rowslice/head/tail/skip equal itertools.islice for all small argument triples.'),
 'C17': _c('C17', 'Real sqlite3 on a real file: for every row count, prior contents, failure position (header, each row, exhaustion, none), handle kind, commit flag and todb/appenddb, a fresh connection must see exactly the previous or the fully loaded contents.'),
 'C19': _c('C19', 'A symbolic failing flag per row (and field), symbolic policy, policy source (argument vs config) and errorvalue; convert/fieldmap/rowmap/rowmapmany output is compared with a reference per policy, including when the exception surfaces.'),
 'C20': _c('C20', 'A sweep of >130 unary catalogue entries on header-only tables (three container kinds) for usual header / no rows / no exception, plus every multi-input operator with each header-only mask through the full relational oracles of C05-C10.'),
})
CHECKS.update({
 'C01': _c('C01', 'For every view of the catalogue (>200 constructor calls incl. sorts with memory/file cache, sort-backed operators, hash joins, cache(n), fromdicts on a generator, random tables, file/db extractors) the schedule of next()/re-create actions on 2 (thorough 3) iterators is a sequence of symbolic choices; every interleaving within the bound is explored; each iterator must deliver a prefix of (and on exhaustion exactly) the solo pass, and later passes must equal it.'),
 'C11': _c('C11', 'Part 1: every sort-backed operator is run differentially against its own default call with symbolic keys, buffersize (argument or petl.config), cache, tempdir and presorted on sorted inputs; part 2: symbolic histories of full/partial passes and source edits decide what cache=True/False means (reflect current contents vs replay a completed pass with zero source reads).'),
 'C18': _c('C18', 'Real temp files in a private directory: symbolic histories of create/advance/release operations over 2-3 iterator slots and the view, plus source failures at a symbolic row; after everything is released the directory must be empty, and every live iterator (also one outliving its view or served from the file cache) must deliver the sorted reference.'),
})
CHECKS.update({
 'C02': _c('C02', 'With counting sources on every input: constructing any catalogue pipeline reads no data row; for streaming entries the rows pulled for k outputs are bounded by the smallest source prefix on which the real operator already yields those outputs (+ the catalogued look-ahead), summed over the source iterators and for each single source iterator, with and without 3 extra source rows; display functions and compositions of streaming operators likewise.'),
 'C03': _c('C03', 'For every catalogue entry over list-of-lists sources (rectangular and ragged), after a partial pass abandoned at a symbolic row plus a full pass: every source container, header, row object and cell is unchanged and every row already delivered still equals its copy taken at yield time.'),
 'C12': _c('C12', 'Cell-by-cell reference models of the documented behaviour of cut/cutout/movefield/cat/stack/annex/addfield(s)/addcolumn/addrownumbers/addfieldusingcontext/header functions/convert family/fills/fieldmap/rowmap/sub/accessors, with symbolic row counts, ragged row lengths, field selectors (names, indices, out of range), insertion indices and missing values.'),
 'C14': _c('C14', 'melt->recast reproduces the table for unique symbolic keys (incl. compound keys given in another order), transpose is an involution, unflatten(flatten) reproduces the data rows, melt emits one row per cell, pivot cells aggregate exactly the rows with that pair, unpack/unpackdict/capture/split/splitdown expand one field only, fromdicts(dicts) and fromcolumns(columns) round-trip.'),
 'C15': _c('C15', 'Real files/codecs/compressors: for every string over an alphabet of special characters up to the bound in one cell (plus pooled cells, ragged rows, header flags), each encoding x source kind and each delimiter x quotechar x quoting mode, from*(to*(t)) == t; to*+append* equals to*(concatenation) in bytes; pickle exact with typed cells; json with JSON types.'),
 'C16': _c('C16', 'Every pass-through wrapper yields exactly the wrapped rows (two passes, a partial pass, a pass after it; batch sizes, cache limits, zero clock steps symbolic); after full consumption each tee target equals byte-for-byte what the matching to* writes for the same arguments (encodings, dialect, header flags, templates, html options; path/.gz/memory).'),
})
NOT_APPLICABLE = {}
