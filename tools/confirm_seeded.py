#!/usr/bin/env python3
"""Confirm a sub-agent's seeded change in a scratch worktree of /repo HEAD and
store it under /verif/seeded/<id>/.  usage: confirm_seeded.py <PROP> <mK> [...]
Confirms: patch applies; full test-suite passes with it (481); demo fails with
it; demo passes without it."""
import json, os, shutil, subprocess, sys, re
OUT = os.environ.get('SEED_OUT', '/tmp/mut/out')
VERIF = '/verif'

def sh(cmd, cwd=None, env=None, timeout=900):
    p = subprocess.run(cmd, shell=True, cwd=cwd, env=env, stdout=subprocess.PIPE, stderr=subprocess.STDOUT, timeout=timeout)
    return p.returncode, p.stdout.decode('utf-8', 'replace')

def confirm(prop, m):
    sid = '%s-%s' % (prop, m)
    src = os.path.join(OUT, prop)
    patch = os.path.join(src, m + '.patch.diff'); demo = os.path.join(src, m + '.demo.py'); notes = os.path.join(src, m + '.notes.txt')
    wt = '/tmp/seedchk/%s' % sid
    sh('git -C /repo worktree remove --force %s' % wt)
    os.makedirs('/tmp/seedchk', exist_ok=True)
    rc, o = sh('git -C /repo worktree add --detach %s HEAD -q' % wt)
    assert rc == 0, o
    res = dict(id=sid, property=prop)
    try:
        shutil.copy('/repo/petl/version.py', wt + '/petl/version.py')
        env = dict(os.environ, PYTHONPATH=wt, PYTHONDONTWRITEBYTECODE='1')
        rc, o = sh('/venv/bin/python %s' % demo, cwd=wt, env=env); res['demo_clean_rc'] = rc
        rc, o = sh('git apply %s' % patch, cwd=wt); res['applies'] = rc == 0
        if rc != 0:
            res['error'] = o[-500:]; return res
        rc, o = sh('/venv/bin/python -m pytest -q -p no:cacheprovider --timeout=900 2>&1 | tail -1', cwd=wt, env=env)
        res['tests'] = o.strip()
        rc, o = sh('/venv/bin/python %s' % demo, cwd=wt, env=env); res['demo_patched_rc'] = rc
        res['demo_patched_tail'] = o.strip().split('\n')[-1][:300]
        head = sh('git -C /repo rev-parse --short HEAD')[1].strip()
        ok = res['demo_clean_rc'] == 0 and res['demo_patched_rc'] != 0 and re.match(r'481 passed', res['tests'])
        res['confirmed'] = bool(ok)
        if ok:
            d = os.path.join(VERIF, 'seeded', sid); os.makedirs(d, exist_ok=True)
            shutil.copy(patch, d + '/patch.diff'); shutil.copy(demo, d + '/demo.py')
            meta = dict(id=sid, breaks_property=prop, needs=open(notes).read().strip(),
                        confirmed_against_repo_commit=head,
                        ran=['git apply patch.diff (scratch worktree of /repo HEAD)',
                             'pytest full suite with patch: ' + res['tests'],
                             'demo.py with patch: exit %d (%s)' % (res['demo_patched_rc'], res['demo_patched_tail']),
                             'demo.py without patch: exit 0'],
                        detected_by=None)
            old = d + '/meta.json'
            if os.path.exists(old):
                meta['detected_by'] = json.load(open(old)).get('detected_by')
            json.dump(meta, open(old, 'w'), indent=1)
    finally:
        sh('git -C /repo worktree remove --force %s' % wt)
    return res

if __name__ == '__main__':
    prop = sys.argv[1]
    for m in sys.argv[2:] or ['m1', 'm2']:
        print(json.dumps(confirm(prop, m)))
