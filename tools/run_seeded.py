#!/usr/bin/env python3
"""Run the registered check(s) against every kept seeded change and record the outcome in seeded/<id>/meta.json.
usage: run_seeded.py [--tier quick|thorough] [--only ID-REGEX] [--checks C05,C11 (default: the property the change breaks)]
Each change is applied to /repo (git apply), the check is run, and /repo is restored (git checkout -- .) straight afterwards."""
import argparse, glob, json, os, re, subprocess, sys, time
ap = argparse.ArgumentParser()
ap.add_argument('--tier', default='quick'); ap.add_argument('--only', default='.'); ap.add_argument('--checks', default=None)
ap.add_argument('--extra-args', default='')
ap.add_argument('--scratch', default=None, help='apply the change in this scratch worktree of /repo (PETL_REPO) instead of /repo itself')
a = ap.parse_args()
rows = []
for d in sorted(glob.glob('/verif/seeded/*')):
    sid = os.path.basename(d)
    if not re.search(a.only, sid):
        continue
    meta = json.load(open(d + '/meta.json'))
    checks = a.checks.split(',') if a.checks else [meta['breaks_property']]
    R = a.scratch or '/repo'
    st = subprocess.run('git -C %s status --porcelain --untracked-files=no' % R, shell=True, stdout=subprocess.PIPE).stdout.decode().strip()
    assert not st, R + ' not clean: ' + st
    ap_ = subprocess.run(['git', '-C', R, 'apply', d + '/patch.diff'], stdout=subprocess.PIPE, stderr=subprocess.STDOUT)
    res = {}
    try:
        if ap_.returncode != 0:
            res = {'error': 'patch does not apply: ' + ap_.stdout.decode()[-200:]}
        else:
            for c in checks:
                t0 = time.time()
                cmd = ['./verify', 'check', c, '--tier', a.tier] + a.extra_args.split()
                p = subprocess.run(cmd, cwd='/verif', stdout=subprocess.PIPE, stderr=subprocess.STDOUT, env=dict(os.environ, PETL_REPO=R, VERIF_EVIDENCE_DIR='/tmp/pv_seeded_evidence'))
                out = p.stdout.decode('utf-8', 'replace')
                jobs = re.findall(r'^  job=(\S+) :: (.*)$', out, re.M)
                res['%s@%s' % (c, a.tier)] = dict(tier=a.tier, exit=p.returncode, detected=(p.returncode == 1 and 'VIOLATION property=' in out),
                              violating_jobs=[j for j, _ in jobs][:6], first_message=(jobs[0][1][:240] if jobs else ''),
                              wall_s=round(time.time() - t0))
    finally:
        subprocess.run('git -C %s checkout -- .' % R, shell=True)
    meta.setdefault('detected_by', None)
    db = meta['detected_by'] if isinstance(meta['detected_by'], dict) else {}
    db.update(res)
    meta['detected_by'] = db
    meta['checked_against_repo_commit'] = subprocess.run('git -C /repo rev-parse --short HEAD', shell=True, stdout=subprocess.PIPE).stdout.decode().strip()
    json.dump(meta, open(d + '/meta.json', 'w'), indent=1)
    summary = ', '.join('%s:%s' % (k, ('DETECTED' if v.get('detected') else 'missed(exit %s)' % v.get('exit')) if isinstance(v, dict) else v) for k, v in res.items())
    print(sid, summary, flush=True)
