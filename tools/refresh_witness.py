#!/usr/bin/env python3
"""Regenerate the witness (solver model) of an open known finding after a harness change.
usage: refresh_witness.py <PROP> <KFID> <job-name-regex>
The finding's line is removed, the job is run (it must be refuted, with the same harness function), and the line is
re-written with the new model.  The description text is kept."""
import glob, json, os, re, subprocess, sys
prop, kfid, only = sys.argv[1:4]
path = '/verif/known_findings.txt'
lines = open(path).read().split('\n')
mine = [l for l in lines if l.startswith('open:') and ('id=%s ' % kfid) in l]
assert len(mine) == 1, mine
what = mine[0].split(' what=', 1)[1]
rest = [l for l in lines if l not in mine]
open(path, 'w').write('\n'.join(rest))
for f in glob.glob('/verif/replays/%s__*' % prop):
    os.unlink(f)
try:
    out = subprocess.run(['./verify', 'check', prop, '--only', only], cwd='/verif', stdout=subprocess.PIPE, stderr=subprocess.STDOUT).stdout.decode()
    reps = sorted(glob.glob('/verif/replays/%s__*' % prop))
    assert reps, 'job was not refuted:\n' + out[-2000:]
    d = json.load(open(reps[0]))
    line = "open: property=%s id=%s module=%s func=%s params=%s values=%s what=%s" % (
        prop, kfid, d['module'], d['func'], json.dumps(d['params'], separators=(',', ':')),
        json.dumps(d['values'], separators=(',', ':')), what)
    rest = [l for l in rest if l.strip()] + [line, '']
    print('new witness from', reps[0], ':', (d.get('detail') or '')[:200])
finally:
    open(path, 'w').write('\n'.join(rest if rest[-1] == '' else rest + ['']))
