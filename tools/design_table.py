#!/usr/bin/env python3
"""Regenerate the measured quick-tier table in DESIGN.md 10.3 from evidence/*.json (quick-tier evidence)."""
import glob, json, re
rows = ['| id | jobs | jobs exhausted | paths | solver queries | solver s | wall s | functions encoded |', '|---|---|---|---|---|---|---|---|']
tot = [0, 0, 0.0]
for f in sorted(glob.glob('/verif/evidence/C*.json')):
    d = json.load(open(f)); c = d['coverage']
    if d['tier'] != 'quick' or c.get('job_filter'):
        rows.append('| %s | (evidence on disk is from a %s run%s) |' % (d['property_id'], d['tier'], ' with a job filter' if c.get('job_filter') else ''))
        continue
    rows.append('| %s | %d | %d | %d | %d | %.0f | %.0f | %d |' % (d['property_id'], c['jobs_total'], c['jobs_confirmed_exhausted'], c['states'],
                c['transitions'], c['solver_time_s'], d['wall_s'], len(c['functions_encoded'])))
    tot[0] += c['states']; tot[1] += c['transitions']; tot[2] += d['wall_s']
rows.append('| all | | | %d | %d | | %.0f | |' % (tot[0], tot[1], tot[2]))
table = '\n'.join(rows)
p = '/verif/DESIGN.md'; s = open(p).read()
s = re.sub(r'<!-- QUICK-TABLE-BEGIN -->.*?<!-- QUICK-TABLE-END -->', lambda _: '<!-- QUICK-TABLE-BEGIN -->\n' + table + '\n<!-- QUICK-TABLE-END -->', s, flags=re.S)
open(p, 'w').write(s)
print(table)
